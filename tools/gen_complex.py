#!/usr/bin/env python3
"""Generates the complex instances of the specification: the same modules with Gaussian-rational scalars (CRat instead of Rat).
   TPS -> CTPS, UTPMachine -> CUTPMachine, MC_UTPM -> MC_CUTPM, LinAlg -> CLinAlg, Factor -> CFactor, MC_Factor -> MC_CFactor, Tracer -> CTracer, MC_Tracer -> MC_CTracer.   usage: gen_complex.py [--check]"""
import sys, os, re
S = os.path.join(os.path.dirname(os.path.dirname(os.path.abspath(__file__))), "spec")
def gen():
    out = {}
    t = open(os.path.join(S, "TPS.tla")).read()
    t = re.sub(r"-+ MODULE TPS -+", "------------------------------- MODULE CTPS -------------------------------", t)
    t = t.replace("EXTENDS Rat", "EXTENDS CRat")
    out["CTPS.tla"] = "\\* GENERATED from TPS.tla by tools/gen_complex.py - do not edit\n" + t
    u = open(os.path.join(S, "UTPMachine.tla")).read()
    u = re.sub(r"-+ MODULE UTPMachine -+", "---------------------------- MODULE CUTPMachine ----------------------------", u)
    u = u.replace("EXTENDS NDA, TPS, TLC", "EXTENDS NDA, CTPS, TLC")
    out["CUTPMachine.tla"] = "\\* GENERATED from UTPMachine.tla by tools/gen_complex.py - do not edit\n" + u
    m = open(os.path.join(S, "MC_UTPM.tla")).read()
    m = re.sub(r"-+ MODULE MC_UTPM -+", "------------------------------ MODULE MC_CUTPM ------------------------------", m)
    m = m.replace("EXTENDS UTPMachine, Json", "EXTENDS CUTPMachine, Json")
    out["MC_CUTPM.tla"] = "\\* GENERATED from MC_UTPM.tla by tools/gen_complex.py - do not edit\n" + m
    for src, dst, a, b in (("LinAlg", "CLinAlg", "EXTENDS NDA, TPS, FiniteSetsExt", "EXTENDS NDA, CTPS, FiniteSetsExt"),
                           ("Factor", "CFactor", "EXTENDS LinAlg", "EXTENDS CLinAlg"),
                           ("MC_Factor", "MC_CFactor", "EXTENDS Factor, TLC, Json", "EXTENDS CFactor, TLC, Json"),
                           ("Tracer", "CTracer", "EXTENDS Integers, Sequences, FiniteSets, TLC, TPS", "EXTENDS Integers, Sequences, FiniteSets, TLC, CTPS"),
                           ("MC_Tracer", "MC_CTracer", "EXTENDS Tracer, Json", "EXTENDS CTracer, Json")):
        t = open(os.path.join(S, src + ".tla")).read()
        assert a in t, (src, a)
        t = re.sub(r"-+ MODULE %s -+" % src, "------------------------------- MODULE %s -------------------------------" % dst, t)
        out[dst + ".tla"] = "\\* GENERATED from %s.tla by tools/gen_complex.py - do not edit\n" % src + t.replace(a, b)
    return out
if __name__ == "__main__":
    o = gen()
    if "--check" in sys.argv:
        bad = [k for k, v in o.items() if not os.path.exists(os.path.join(S, k)) or open(os.path.join(S, k)).read() != v]
        print("out of date: %s" % bad if bad else "in sync"); sys.exit(1 if bad else 0)
    for k, v in o.items():
        open(os.path.join(S, k), "w").write(v)
    print("generated", sorted(o))
