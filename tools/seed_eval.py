#!/venv/bin/python
"""Confirm a seeded change (patch applies, suite still passes, demo fails with / passes without) in a scratch worktree,
run the given checks against it in /repo, and store everything under /verif/seeded/<prop>_<m>/.
usage: seed_eval.py <prop> <m> <src dir with patch.diff demo.py meta.json> <check ids ...>"""
import sys, os, subprocess, json, shutil, tempfile, re
prop, m, src = sys.argv[1:4]
checks = sys.argv[4:]
V = "/verif"
VR = os.environ.get("SEED_EVAL_VERIF", V)      # a frozen copy of /verif to run the checks from (so that editing /verif meanwhile is harmless)
dst = os.path.join(V, "seeded", "%s_%s" % (prop, m))
os.makedirs(dst, exist_ok=True)
patch = os.path.join(src, "patch.diff")
res = {"property": prop, "mutant": m}
wt = tempfile.mkdtemp(prefix="seedwt_")
os.rmdir(wt)
def sh(cmd, cwd=None, timeout=1800):
    p = subprocess.run(cmd, shell=True, cwd=cwd, stdout=subprocess.PIPE, stderr=subprocess.STDOUT, text=True, timeout=timeout)
    return p.returncode, p.stdout
try:
    rc, out = sh("git -C /repo worktree add -q --detach %s HEAD" % wt)
    assert rc == 0, out
    demo = open(os.path.join(src, "demo.py")).read()
    old = re.search(r"/tmp/mut\d?/C\d\d", demo)
    demo_wt = demo.replace(old.group(0), wt) if old else demo
    open(os.path.join(wt, "_demo.py"), "w").write(demo_wt)
    rc0, o0 = sh("PYTHONPATH=%s /venv/bin/python -W ignore _demo.py" % wt, cwd=wt)
    res["demo_unpatched_rc"] = rc0
    rc, out = sh("git apply %s" % patch, cwd=wt)
    res["applies"] = rc == 0
    if rc != 0:
        res["apply_error"] = out[-300:]
    else:
        rc1, o1 = sh("PYTHONPATH=%s /venv/bin/python -W ignore _demo.py" % wt, cwd=wt)
        res["demo_patched_rc"] = rc1
        rct, ot = sh("/venv/bin/python -m pytest -q -p no:cacheprovider -x algopy 2>&1 | tail -1", cwd=wt)
        res["tests_with_change"] = ot.strip()
finally:
    sh("git -C /repo worktree remove --force %s" % wt)
    shutil.rmtree(wt, ignore_errors=True)
res["confirmed"] = bool(res.get("applies") and res.get("demo_unpatched_rc") == 0 and res.get("demo_patched_rc", 0) != 0 and "385 passed" in res.get("tests_with_change", ""))
det = {}
if res["confirmed"]:
    # run the checks against a scratch worktree with the change applied (ALGOPY_VERIF_REPO), never against /repo itself,
    # with evidence/replays redirected, so that this evaluation does not disturb anything else
    wt2 = tempfile.mkdtemp(prefix="seedwt_"); os.rmdir(wt2)
    out2 = tempfile.mkdtemp(prefix="seedout_")
    try:
        assert sh("git -C /repo worktree add -q --detach %s HEAD" % wt2)[0] == 0
        assert sh("git apply %s" % patch, cwd=wt2)[0] == 0
        for c in checks:
            rc, out = sh("VERIF_TLC_XMX=10g ALGOPY_VERIF_REPO=%s VERIF_OUT=%s timeout 1500 ./check %s" % (wt2, out2, c), cwd=VR, timeout=1700)
            sigs = sorted(set(l.split("#", 1)[1].strip()[:120] for l in out.splitlines() if l.startswith("VIOLATION")))
            det[c] = {"exit": rc, "violations": sigs[:6]}
            if rc not in (0, 1):
                det[c]["tail"] = out[-400:]
    finally:
        sh("git -C /repo worktree remove --force %s" % wt2)
        shutil.rmtree(wt2, ignore_errors=True); shutil.rmtree(out2, ignore_errors=True)
res["detection"] = det
res["detected_by"] = [c for c, d in det.items() if d["exit"] == 1]
shutil.copy(patch, os.path.join(dst, "patch.diff"))
open(os.path.join(dst, "demo.py"), "w").write(open(os.path.join(src, "demo.py")).read())
meta = {}
try:
    meta = json.load(open(os.path.join(src, "meta.json")))
except Exception:
    pass
# keep the outcome of earlier evaluations (e.g. "missed at first, reported after the check was strengthened")
try:
    old = json.load(open(os.path.join(dst, "meta.json")))
    hist = old.get("earlier_evaluations", [])
    if "detected_by" in old:
        hist.append({"detected_by": old["detected_by"], "checks_run": old.get("checks_run"), "verif_commit": old.get("verif_commit")})
    meta["earlier_evaluations"] = hist
except Exception:
    pass
meta["verif_commit"] = sh("git -C %s log --format=%%h -1" % ("/verif"))[1].strip() + (" (snapshot)" if VR != "/verif" else "")
meta.update({"breaks_property": prop, "confirmation": {k: res[k] for k in res if k not in ("detection",)},
             "checks_run": checks, "detection": det, "detected_by": res["detected_by"],
             "how_to_reproduce": "git -C /repo apply /verif/seeded/%s_%s/patch.diff; (cd /verif && ./check <id>); git -C /repo checkout -- ." % (prop, m)})
json.dump(meta, open(os.path.join(dst, "meta.json"), "w"), indent=1)
print(prop, m, "confirmed" if res["confirmed"] else "NOT CONFIRMED %s" % {k: res.get(k) for k in ("applies", "demo_unpatched_rc", "demo_patched_rc", "tests_with_change")}, "detected_by", res["detected_by"])
