#!/usr/bin/env python3
"""writes seeded/SUMMARY.md from the meta.json files"""
import json, os, glob
V = os.path.dirname(os.path.dirname(os.path.abspath(__file__)))
rows = []
for d in sorted(glob.glob(os.path.join(V, "seeded", "C*_*m[0-9]"))):
    if not os.path.exists(os.path.join(d, "meta.json")):
        continue
    m = json.load(open(os.path.join(d, "meta.json")))
    name = os.path.basename(d)
    det = m.get("detection", {})
    ev = m.get("earlier_evaluations", [])
    first = "-" if not ev else (", ".join(ev[0].get("detected_by") or []) or "missed")
    rows.append((name, m.get("title", "")[:110], "yes" if m.get("confirmation", {}).get("confirmed") else "NO",
                 first, ", ".join(m.get("detected_by", [])) or "-", "; ".join("%s: %s" % (c, (v.get("violations") or ["-"])[0][:70]) for c, v in det.items() if v.get("exit") == 1)))
out = ["# Seeded changes and the checks that report them", "",
       "Each change was written by a sub-agent from the text of one property only; `confirmed` = patch applies, the 385 tests of `algopy/` still pass,",
       "the demonstration fails with and passes without the change (tools/seed_eval.py). `detected by` = checks that exit 1 on a worktree with the change.", "",
       "| change | what it does | confirmed | at its first evaluation (if re-evaluated) | detected by (current checks) | first violation signature |", "|---|---|---|---|---|---|"]
for r in rows:
    out.append("| %s | %s | %s | %s | %s | %s |" % r)
n = len(rows); k = sum(1 for r in rows if r[4] != "-")
missed_first = sum(1 for r in rows if r[3] == "missed")
out += ["", "%d changes, %d reported by at least one check; %d of them were missed when first evaluated and are reported since the checks were strengthened (m1-m3: first wave, w2* ... w6*: later waves of sub-agents)." % (n, k, missed_first)]
open(os.path.join(V, "seeded", "SUMMARY.md"), "w").write("\n".join(out) + "\n")
print(n, k)
