#!/bin/bash
# usage: try_mut.sh <patch.diff> <check id> [args...]   runs ./check against a scratch worktree of /repo with the patch applied
# (ALGOPY_VERIF_REPO), evidence and replays redirected to a scratch directory (VERIF_OUT); removes both afterwards
set -u
P="$1"; shift
WT=$(mktemp -d /tmp/trymut_wt_XXXX); OUT=$(mktemp -d /tmp/trymut_out_XXXX); rmdir "$WT"
git -C /repo worktree add -q --detach "$WT" HEAD || exit 3
( cd "$WT" && git apply "$P" ) || { echo "patch does not apply"; git -C /repo worktree remove --force "$WT"; rm -rf "$OUT"; exit 3; }
( cd /verif && ALGOPY_VERIF_REPO="$WT" VERIF_OUT="$OUT" ./check "$@" ) 2>&1 | grep -E "VIOLATION|KNOWN|violations|Machinery|Error" | cut -c1-260 | sort | uniq -c | sort -rn | head -12
rc=${PIPESTATUS[0]}
git -C /repo worktree remove --force "$WT"; rm -rf "$WT" "$OUT"
echo "rc=$rc"
