#!/bin/bash
# usage: try_patch.sh <patch.diff> <cmd...>   applies the patch to /repo, runs the command, restores /repo
set -u
P="$1"; shift
cd /repo || exit 3
if ! git diff --quiet; then echo "repo dirty"; exit 3; fi
git apply "$P" || { echo "patch does not apply"; exit 3; }
( cd /verif && "$@" ); rc=$?
git -C /repo checkout -- . 
echo "rc=$rc"
exit $rc
