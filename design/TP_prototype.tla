---- MODULE TP_prototype ----
\* Prototype of the tracer machine: scalar cells, D=1, views, in-place writes, replay, reverse sweep.
EXTENDS Integers, Sequences, TLC, FiniteSets
CONSTANTS MaxInstr, StaleStore, RollForward, MaxHist
N == 2
Points == { <<1,2>>, <<3,5>> }
NoneV == [buf |-> 0, cells |-> <<>>]

VARIABLES prog,      \* Seq of instructions (node k = prog[k])
          val,       \* Seq: object per node  [buf, cells]  (NoneV for set nodes)
          saved,     \* Seq: <<>> or <<cellindex, content>> per node
          heap,      \* Seq of Seq(Int): buffer contents
          phase,     \* "rec" | "idle"
          recpt, lastpt, hist, grad
vars == <<prog, val, saved, heap, phase, recpt, lastpt, hist, grad>>

Scalar(k) == Len(val[k].cells) = 1
ArrayNode(k) == Len(val[k].cells) = N
Read(h, o) == [i \in 1..Len(o.cells) |-> h[o.buf][o.cells[i]]]
Alloc(h, contents) == Append(h, contents)
WriteCell(h, b, c, v) == [h EXCEPT ![b][c] = v]

\* ---------- one forward step of instruction ins on heap h with node values v (values = ints)
\* returns [h, o, sv]
Step(h, v, ins, pt, oldsaved, refresh) ==
  CASE ins.op = "in"    -> [h |-> Alloc(h, pt), o |-> [buf |-> Len(h)+1, cells |-> <<1,2>>], sv |-> <<>>]
    [] ins.op = "zeros" -> [h |-> Alloc(h, <<0,0>>), o |-> [buf |-> Len(h)+1, cells |-> <<1,2>>], sv |-> <<>>]
    [] ins.op = "get"   -> [h |-> h, o |-> [buf |-> v[ins.a].buf, cells |-> <<v[ins.a].cells[ins.i]>>], sv |-> <<>>]
    [] ins.op = "set"   -> LET tgt == v[ins.a] c == tgt.cells[ins.i]
                               old == h[tgt.buf][c]
                               new == h[v[ins.b].buf][v[ins.b].cells[1]]
                           IN [h |-> WriteCell(h, tgt.buf, c, new), o |-> NoneV,
                               sv |-> IF refresh THEN <<ins.i, old>> ELSE oldsaved]
    [] ins.op = "mul"   -> LET x == Read(h, v[ins.a])[1] y == Read(h, v[ins.b])[1]
                           IN [h |-> Alloc(h, <<x*y>>), o |-> [buf |-> Len(h)+1, cells |-> <<1>>], sv |-> <<>>]
    [] ins.op = "add"   -> LET x == Read(h, v[ins.a])[1] y == Read(h, v[ins.b])[1]
                           IN [h |-> Alloc(h, <<x+y>>), o |-> [buf |-> Len(h)+1, cells |-> <<1>>], sv |-> <<>>]

RECURSIVE FwdFrom(_,_,_,_,_,_)
FwdFrom(k, h, v, s, pt, refresh) ==
  IF k > Len(prog) THEN [h |-> h, v |-> v, s |-> s]
  ELSE LET r == Step(h, v, prog[k], pt, s[k], refresh)
       IN FwdFrom(k+1, r.h, Append(v, r.o), [s EXCEPT ![k] = r.sv], pt, refresh)

\* ---------- reference: fresh direct execution with dual numbers (value, derivative wrt input j)
DStep(h, v, ins, pt, j) ==
  CASE ins.op = "in"    -> [h |-> Alloc(h, [i \in 1..N |-> <<pt[i], IF i = j THEN 1 ELSE 0>>]), o |-> [buf |-> Len(h)+1, cells |-> <<1,2>>]]
    [] ins.op = "zeros" -> [h |-> Alloc(h, << <<0,0>>, <<0,0>> >>), o |-> [buf |-> Len(h)+1, cells |-> <<1,2>>]]
    [] ins.op = "get"   -> [h |-> h, o |-> [buf |-> v[ins.a].buf, cells |-> <<v[ins.a].cells[ins.i]>>]]
    [] ins.op = "set"   -> LET tgt == v[ins.a] c == tgt.cells[ins.i]
                               new == h[v[ins.b].buf][v[ins.b].cells[1]]
                           IN [h |-> WriteCell(h, tgt.buf, c, new), o |-> NoneV]
    [] ins.op = "mul"   -> LET x == Read(h, v[ins.a])[1] y == Read(h, v[ins.b])[1]
                           IN [h |-> Alloc(h, << <<x[1]*y[1], x[1]*y[2]+x[2]*y[1]>> >>), o |-> [buf |-> Len(h)+1, cells |-> <<1>>]]
    [] ins.op = "add"   -> LET x == Read(h, v[ins.a])[1] y == Read(h, v[ins.b])[1]
                           IN [h |-> Alloc(h, << <<x[1]+y[1], x[2]+y[2]>> >>), o |-> [buf |-> Len(h)+1, cells |-> <<1>>]]
RECURSIVE DFrom(_,_,_,_,_)
DFrom(k, h, v, pt, j) ==
  IF k > Len(prog) THEN [h |-> h, v |-> v]
  ELSE LET r == DStep(h, v, prog[k], pt, j) IN DFrom(k+1, r.h, Append(v, r.o), pt, j)
Dep == Len(prog)     \* dependent = last node (a scalar by construction of Stop)
RefDual(pt, j) == LET r == DFrom(1, <<>>, <<>>, pt, j) IN Read(r.h, r.v[Dep])[1]
RefValue(pt) == RefDual(pt, 1)[1]
RefGrad(pt) == [j \in 1..N |-> RefDual(pt, j)[2]]

\* ---------- reverse sweep (faithful): bar objects live in a separate heap bh
\* bar init: own-data nodes get fresh zeros, view nodes (get) get the same view of the parent's bar
RECURSIVE BarInit(_,_,_)
BarInit(k, bh, b) ==
  IF k > Len(prog) THEN [bh |-> bh, b |-> b]
  ELSE LET ins == prog[k] IN
       IF ins.op = "get" THEN BarInit(k+1, bh, Append(b, [buf |-> b[ins.a].buf, cells |-> <<b[ins.a].cells[ins.i]>>]))
       ELSE IF ins.op = "set" THEN BarInit(k+1, bh, Append(b, NoneV))
       ELSE LET n == Len(val[k].cells) IN
            BarInit(k+1, Append(bh, [i \in 1..n |-> 0]), Append(b, [buf |-> Len(bh)+1, cells |-> [i \in 1..n |-> i]]))

AddTo(bh, o, x) == [bh EXCEPT ![o.buf][o.cells[1]] = @ + x]
\* pullback of node k: reads forward values from heap h (current!), returns [h, bh]
PbStep(k, h, bh, b) ==
  LET ins == prog[k] IN
  CASE ins.op \in {"in", "zeros", "get"} -> [h |-> h, bh |-> bh]
    [] ins.op = "set" -> LET tb == b[ins.a] c == tb.cells[ins.i]
                             yb == bh[tb.buf][c]
                             bh1 == AddTo(bh, b[ins.b], yb)
                             bh2 == [bh1 EXCEPT ![tb.buf][c] = 0]
                             tgt == val[ins.a]
                             h1 == IF saved[k] # <<>> THEN WriteCell(h, tgt.buf, tgt.cells[saved[k][1]], saved[k][2]) ELSE h
                         IN [h |-> h1, bh |-> bh2]
    [] ins.op = "mul" -> LET zb == bh[b[k].buf][1]
                             x == Read(h, val[ins.a])[1] y == Read(h, val[ins.b])[1]
                             bh1 == AddTo(bh, b[ins.a], zb*y)
                         IN [h |-> h, bh |-> AddTo(bh1, b[ins.b], zb*x)]
    [] ins.op = "add" -> LET zb == bh[b[k].buf][1]
                             bh1 == AddTo(bh, b[ins.a], zb)
                         IN [h |-> h, bh |-> AddTo(bh1, b[ins.b], zb)]
RECURSIVE PbFrom(_,_,_,_)
PbFrom(k, h, bh, b) ==
  IF k = 0 THEN [h |-> h, bh |-> bh]
  ELSE LET r == PbStep(k, h, bh, b) IN PbFrom(k-1, r.h, r.bh, b)
RECURSIVE Redo(_,_)
Redo(k, h) == IF k > Len(prog) THEN h
              ELSE LET ins == prog[k] IN
                   IF ins.op = "set" THEN Redo(k+1, WriteCell(h, val[ins.a].buf, val[ins.a].cells[ins.i], h[val[ins.b].buf][val[ins.b].cells[1]]))
                   ELSE Redo(k+1, h)

\* ---------- recording
Scalars == {k \in 1..Len(prog) : prog[k].op \in {"get","mul","add"}}
Arrays  == {k \in 1..Len(prog) : prog[k].op \in {"in","zeros"}}
Instrs == [op : {"get"}, a : Arrays, i : 1..N]
          \cup [op : {"set"}, a : {2}, i : 1..N, b : Scalars]
          \cup [op : {"mul","add"}, a : Scalars, b : Scalars]

Init == /\ recpt \in Points
        /\ prog = << [op |-> "in"], [op |-> "zeros"] >>
        /\ LET r == FwdFrom(1, <<>>, <<>>, << <<>>, <<>> >>, recpt, TRUE) IN heap = r.h /\ val = r.v /\ saved = r.s
        /\ phase = "rec" /\ lastpt = recpt /\ hist = <<>> /\ grad = <<>>

Rec(ins) == /\ phase = "rec" /\ Len(prog) < MaxInstr + 2
            /\ LET r == Step(heap, val, ins, recpt, <<>>, TRUE) IN
                 /\ heap' = r.h /\ val' = Append(val, r.o) /\ saved' = Append(saved, r.sv)
            /\ prog' = Append(prog, ins)
            /\ UNCHANGED <<phase, recpt, lastpt, hist, grad>>
Stop == /\ phase = "rec" /\ Len(prog) > 2 /\ prog[Len(prog)].op \in {"mul","add","get"}
        /\ phase' = "idle" /\ UNCHANGED <<prog, val, saved, heap, recpt, lastpt, hist, grad>>

Fwd(pt) == /\ phase = "idle" /\ Len(hist) < MaxHist
           /\ LET r == FwdFrom(1, heap, <<>>, saved, pt, ~StaleStore) IN heap' = r.h /\ val' = r.v /\ saved' = r.s
           /\ lastpt' = pt /\ hist' = Append(hist, <<"fwd", pt>>) /\ grad' = <<>>
           /\ UNCHANGED <<prog, phase, recpt>>
Pb == /\ phase = "idle" /\ Len(hist) < MaxHist
      /\ LET bi == BarInit(1, <<>>, <<>>)
             seeded == AddTo(bi.bh, bi.b[Dep], 1)
             r == PbFrom(Len(prog), heap, seeded, bi.b)
         IN /\ grad' = Read(r.bh, bi.b[1])
            /\ heap' = IF RollForward THEN Redo(1, r.h) ELSE r.h
      /\ hist' = Append(hist, <<"pb">>)
      /\ UNCHANGED <<prog, val, saved, phase, recpt, lastpt>>

Next == (\E ins \in Instrs : Rec(ins)) \/ Stop \/ (\E pt \in Points : Fwd(pt)) \/ Pb

\* ---------- properties
ReplayIsProgram == phase = "idle" => Read(heap, val[Dep])[1] = RefValue(lastpt)
GradCorrect == (phase = "idle" /\ grad # <<>>) => grad = RefGrad(lastpt)
Small == \A b \in 1..Len(heap) : \A c \in 1..Len(heap[b]) : heap[b][c] < 2000 /\ heap[b][c] > -2000
====
