CONSTANTS MaxInstr = 6
 StaleStore = TRUE
 RollForward = TRUE
 MaxHist = 3
INIT Init
NEXT Next
INVARIANT ReplayIsProgram
INVARIANT GradCorrect
CHECK_DEADLOCK FALSE
CONSTRAINT Small
