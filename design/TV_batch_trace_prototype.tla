---- MODULE TV_batch_trace_prototype ----
EXTENDS Integers, Sequences, TLC, Json, IOUtils, FiniteSets
Log == JsonDeserialize(IOEnv.TRACE_FILE)
NT == Len(Log)
ASSUME TLCSet(1, {})
VARIABLES tid, l, c
Init == tid \in 1..NT /\ l = 1 /\ c = 0
IsEvent(e) == l <= Len(Log[tid]) /\ Log[tid][l].ev = e /\ l' = l + 1
Inc == IsEvent("inc") /\ c' = c + Log[tid][l].k /\ c' = Log[tid][l].c
Reset == IsEvent("reset") /\ c' = 0
Next == (Inc \/ Reset) /\ UNCHANGED tid
Mark == (l = Len(Log[tid]) + 1) => TLCSet(1, TLCGet(1) \cup {tid})
Rejected == (1..NT) \ TLCGet(1)
Post == IF Rejected = {} THEN TRUE ELSE PrintT(<<"REJECTED", Rejected>>) /\ FALSE
====
