"""C17 Conversions between representations are lossless and mutually inverse.

Spec: Conv.tla - every conversion as an index map (which source cell each result cell holds), LAPACK pivot vectors
as sequences of row interchanges.  M: utpm2dirs is a bijection of cells, base/direction maps cover every cell once,
vecsym o symvec = id for all storage conventions, shift(s) o shift(-s) = id on the retained part; for ALL N! pivot
vectors: PermOf is a permutation, SignOf = parity by inversions, the permutation matrix has one 1 per row.
R: the index maps are replayed bit-wise (arrays filled with distinct values); every pivot vector is realised by a
matrix A = P L U (unit lower L with small entries, so that partial pivoting reproduces exactly this vector),
scipy.linalg.lu_factor must return it, utils.piv2mat / piv2det and UTPM.lu / lu2 / lu_factor / det must reassemble A.
"""
import itertools
import numpy, scipy.linalg
from common import *

CFG = """CONSTANTS MaxN = %d
 Emit = TRUE
 ShapeCat <- %s
INIT Init
NEXT Next
INVARIANT PivOK
INVARIANT PivCount
INVARIANT DirsOK
INVARIANT SymOK
INVARIANT ShiftOK
INVARIANT EmitState
CHECK_DEADLOCK FALSE
"""


def run(rep, tier, seed):
    algopy = load_algopy()
    from algopy import utils, UTPM
    q = tier == "quick"
    res = tlc_ok(run_tlc("MC_Conv", CFG % (5 if q else 6, "ShapesA"), workers=16, timeout=1200), "MC_Conv")
    rep.add_tlc(res, "MC_Conv")
    rng = numpy.random.RandomState(seed % (2 ** 31))
    last_of_size = {}
    for r in res.records:
        k = r["kind"]
        if k == "piv":
            piv = numpy.array(r["piv"]); N = len(piv)
            Pm = numpy.array(r["P"], dtype=float)
            sig = "piv N=%d" % N
            rep.case(("piv", tuple(r["piv"])), nontrivial=N >= 2)
            try:
                got = utils.piv2mat(piv)
                if not numpy.array_equal(got, Pm):
                    rep.violation("piv2mat " + sig, {"piv": r["piv"], "got": got.tolist(), "expected": Pm.tolist()})
                if utils.piv2det(piv) != r["sign"]:
                    rep.violation("piv2det " + sig, {"piv": r["piv"], "got": int(utils.piv2det(piv)), "expected": r["sign"]})
                # a matrix whose partial pivoting yields exactly this vector
                L = numpy.tril(rng.randint(-3, 4, size=(N, N)) / 8.0, -1) + numpy.eye(N)
                U = numpy.triu(rng.randint(-4, 5, size=(N, N)).astype(float), 1) + numpy.diag(rng.choice([2., 3., -2., 4., -5.], size=N))
                A = Pm @ L @ U
                lu, pv = scipy.linalg.lu_factor(A)
                if not numpy.array_equal(pv, piv):
                    raise Machinery("constructed matrix does not reproduce pivot vector %s (scipy gives %s)" % (piv, pv))
                if abs(numpy.linalg.det(A) - utils.piv2det(pv) * numpy.prod(numpy.diag(lu))) > 1e-9 * max(1, abs(numpy.linalg.det(A))):
                    rep.violation("det = sign*prod(diag U) " + sig, {"piv": r["piv"]})
                # UTPM level: P L U = A mod t^D, det
                D, Pd = 3, 2
                data = numpy.zeros((D, Pd, N, N))
                data[0, :] = A
                data[1:] = rng.randint(-2, 3, size=(D - 1, Pd, N, N))
                Au = UTPM(data.copy())
                pvu, l, u_ = UTPM.lu2(Au)
                Pu = UTPM.piv2mat(pvu)
                rec = UTPM.dot(Pu, UTPM.dot(l, u_)) if isinstance(Pu, UTPM) else UTPM.dot(l, u_)
                if abs(rec.data - Au.data).max() > 1e-9 * (1 + abs(Au.data).max()):
                    rep.violation("UTPM.lu2 reassembly " + sig, {"piv": r["piv"], "err": float(abs(rec.data - Au.data).max())})
                for p in range(Pd):
                    if not numpy.array_equal(numpy.asarray(pvu.data[0, p], dtype=int), piv):
                        rep.violation("UTPM.lu2 pivots " + sig, {"piv": r["piv"], "got": pvu.data[0, p].tolist()})
                Wl, Ll, Ul = UTPM.lu(Au)
                rec2 = UTPM.dot(Wl, UTPM.dot(Ll, Ul))
                if abs(rec2.data - Au.data).max() > 1e-9 * (1 + abs(Au.data).max()):
                    rep.violation("UTPM.lu reassembly " + sig, {"piv": r["piv"], "err": float(abs(rec2.data - Au.data).max())})
                if abs(numpy.triu(Ll.data, 1)).max() > 1e-12 or abs(numpy.tril(Ul.data, -1)).max() > 1e-12 or abs(Wl.data[1:]).max() > 0:
                    rep.violation("UTPM.lu structure " + sig, {"piv": r["piv"]})
                # the packed form: LU.data = strict lower part of L plus U, pivots as lu_factor returns them
                LUf, PIVf = UTPM.lu_factor(Au)
                Lf = UTPM(numpy.tril(LUf.data, -1)); Lf.data[0] += numpy.eye(N)
                Uf = UTPM(numpy.triu(LUf.data, 0))
                rec3 = UTPM.dot(UTPM.piv2mat(PIVf), UTPM.dot(Lf, Uf))
                if abs(rec3.data - Au.data).max() > 1e-9 * (1 + abs(Au.data).max()):
                    rep.violation("UTPM.lu_factor reassembly " + sig, {"piv": r["piv"], "err": float(abs(rec3.data - Au.data).max())})
                # two directions whose base matrices are pivoted differently (this pivot vector and the previous one of the same size)
                prev = last_of_size.get(N)
                last_of_size[N] = (piv.copy(), A.copy())
                if prev is not None:
                    data2 = data.copy(); data2[0, 1] = prev[1]
                    A2 = UTPM(data2.copy())
                    pv2, l2, u2 = UTPM.lu2(A2)
                    def packed(t):
                        Lp = UTPM(numpy.tril(t[0].data, -1)); Lp.data[0] += numpy.eye(N)
                        return UTPM.dot(UTPM.piv2mat(t[1]), UTPM.dot(Lp, UTPM(numpy.triu(t[0].data, 0))))
                    for nm, rec_ in (("lu2", UTPM.dot(UTPM.piv2mat(pv2), UTPM.dot(l2, u2))),
                                     ("lu", (lambda t: UTPM.dot(t[0], UTPM.dot(t[1], t[2])))(UTPM.lu(A2))),
                                     ("lu_factor", packed(UTPM.lu_factor(A2)))):
                        if abs(rec_.data - A2.data).max() > 1e-9 * (1 + abs(A2.data).max()):
                            rep.violation("UTPM.%s reassembly with different pivoting per direction %s" % (nm, sig), {"piv": [r["piv"], prev[0].tolist()]})
                    for p_, want in ((0, piv), (1, prev[0])):
                        if not numpy.array_equal(numpy.asarray(pv2.data[0, p_], dtype=int), want):
                            rep.violation("UTPM.lu2 pivots per direction " + sig, {"direction": p_})
                    dd = UTPM.det(A2)
                    for p_ in range(2):
                        ref = numpy.linalg.det(data2[0, p_])
                        if abs(dd.data[0, p_] - ref) > 1e-9 * max(1, abs(ref)):
                            rep.violation("UTPM.det with different pivoting per direction " + sig, {"direction": p_})
                d = UTPM.det(Au)
                if abs(d.data[0, 0] - numpy.linalg.det(A)) > 1e-9 * max(1, abs(numpy.linalg.det(A))):
                    rep.violation("UTPM.det " + sig, {"piv": r["piv"], "got": float(d.data[0, 0]), "expected": float(numpy.linalg.det(A))})
            except Machinery:
                raise
            except Exception as ex:
                rep.violation("pivot handling raises %s %s" % (type(ex).__name__, sig), {"piv": r["piv"], "what": repr(ex)[-300:]})
            rep.replayed(1)
        elif k == "dirs":
            D, P, es = r["D"], r["P"], tuple(r["es"])
            sig = "D=%d P=%d es=%s" % (D, P, es)
            rep.case(("dirs", D, P, es), nontrivial=D * P > 1)
            u = UTPM(numpy.arange(1, 1 + D * P * int(numpy.prod(es))).reshape((D, P) + es).astype(float))
            V = utils.utpm2dirs(u)
            if tuple(V.shape) != tuple(r["u2d"]["shape"]) or not numpy.array_equal(numpy.ravel(V), u.data.ravel()[numpy.array(r["u2d"]["src"], dtype=int)]):
                rep.violation("utpm2dirs " + sig, {"got_shape": V.shape})
            x = numpy.arange(100, 100 + int(numpy.prod(es))).reshape(es).astype(float)
            Vd = numpy.arange(1000, 1000 + int(numpy.prod(es)) * P * (D - 1)).reshape(es + (P, D - 1)).astype(float)
            try:
                w = utils.base_and_dirs2utpm(x, Vd)
                exp = numpy.array([x.ravel()[i] if t == "x" else Vd.ravel()[i] for (t, i) in r["d2u"]]).reshape((D, P) + es)
                if w.data.shape != exp.shape or not numpy.array_equal(w.data, exp):
                    rep.violation("base_and_dirs2utpm " + sig, {"got": w.data.tolist(), "expected": exp.tolist()})
                x2, V2 = utils.utpm2base_and_dirs(w)
                if not (numpy.array_equal(x2, x) and numpy.array_equal(V2, Vd)):
                    rep.violation("utpm2base_and_dirs o base_and_dirs2utpm " + sig, {})
                w2 = utils.base_and_dirs2utpm(x2, V2)
                if not numpy.array_equal(w2.data, w.data):
                    rep.violation("base_and_dirs2utpm o utpm2base_and_dirs " + sig, {})
                # the converted data is a value of its own: using the source afterwards loses nothing
                keep = w.data.copy()
                w *= 3.0
                w += 1.0
                if not numpy.array_equal(utils.base_and_dirs2utpm(x2, V2).data, keep):
                    rep.violation("utpm2base_and_dirs: the base point / directions change when the polynomial is used afterwards " + sig, {})
                w3 = utils.base_and_dirs2utpm(x2, V2)
                x2 *= 0.0; V2 *= 0.0
                if not numpy.array_equal(w3.data, keep):
                    rep.violation("base_and_dirs2utpm: the polynomial changes when the base point / directions are used afterwards " + sig, {})
            except Exception as ex:
                rep.violation("base/dirs conversion raises %s %s" % (type(ex).__name__, sig), {"what": repr(ex)[-300:]})
            # nested containers of shape es: as_utpm with entries of element shape (2,), ndarray2utpm with 0-d entries
            if len(es) >= 1:
                for fn, eshape in (("as_utpm", (2,)), ("as_utpm", ()), ("ndarray2utpm", ())):
                    cont = numpy.empty(es, dtype=object)
                    ents = []
                    for n, idx in enumerate(itertools.product(*[range(s_) for s_ in es])):
                        e = UTPM(rng.randint(-5, 6, size=(D, P) + eshape).astype(float) + n)
                        cont[idx] = e; ents.append(e)
                    ne = int(numpy.prod(eshape))
                    for variant, C in (("C-order", cont), ("transposed-view", cont.T.copy().T), ("nested-list", cont.tolist())):
                        try:
                            y = UTPM.as_utpm(C) if fn == "as_utpm" else utils.ndarray2utpm(C)
                            ok = tuple(y.data.shape) == (D, P) + es + eshape
                            if ok:
                                flat = y.data.reshape(D, P, -1)
                                for kk in range(flat.shape[2]):
                                    ci, ei = kk // ne, kk % ne        # = Conv!AsUtpmSrc
                                    if ne == 2 and [ci, ei] != r["asu"][kk]:
                                        raise Machinery("AsUtpmSrc mismatch")
                                    if not numpy.array_equal(flat[:, :, kk], ents[ci].data.reshape(D, P, -1)[:, :, ei]):
                                        ok = False; break
                            if not ok:
                                rep.violation("%s (%s) element shape %s %s" % (fn, variant, eshape, sig), {"shape": list(y.data.shape)})
                        except Machinery:
                            raise
                        except Exception as ex:
                            rep.violation("%s (%s) raises %s" % (fn, variant, type(ex).__name__), {"what": repr(ex)[-300:], "es": es})
            rep.replayed(1)
        elif k == "sym":
            N = r["N"]
            rep.case(("sym", N), nontrivial=N >= 2)
            vs = numpy.array(r["vecsym"], dtype=int) - 1
            for kind_ in ("ndarray", "utpm"):
                for uplo in ("F", "L", "U"):
                    B = rng.randint(-9, 10, size=(N, N)).astype(float) + numpy.arange(N * N).reshape(N, N) * 0.25
                    if uplo == "F":
                        A = B + B.T
                    else:
                        A = B           # only one triangle is meaningful
                    if kind_ == "utpm":
                        Ad = numpy.zeros((2, 2, N, N)); Ad[0, 0] = A; Ad[0, 1] = 2 * A; Ad[1, 0] = -A; Ad[1, 1] = 3 * A + 1
                        if uplo == "F":
                            Ad[1, 1] = 3 * A
                        X = UTPM(Ad)
                    else:
                        X = A
                    try:
                        v = algopy.symvec(X, uplo)
                        vd = v.data if kind_ == "utpm" else v
                        Xd = X.data if kind_ == "utpm" else X
                        src = r[uplo]
                        Xf = Xd.reshape(Xd.shape[:-2] + (N * N,))
                        exp = numpy.stack([numpy.mean([Xf[..., i] for i in s_], axis=0) for s_ in src], axis=-1)
                        if vd.shape != exp.shape or not numpy.array_equal(vd, exp):
                            rep.violation("symvec UPLO=%s N=%d (%s)" % (uplo, N, kind_), {"got": numpy.asarray(vd).tolist(), "expected": exp.tolist()})
                        M = algopy.vecsym(v)
                        Md = M.data if kind_ == "utpm" else M
                        expM = vd[..., vs].reshape(Md.shape)
                        if not numpy.array_equal(Md, expM):
                            rep.violation("vecsym N=%d (%s)" % (N, kind_), {})
                        if uplo == "F" and not numpy.array_equal(Md, Xd):
                            rep.violation("vecsym o symvec N=%d (%s)" % (N, kind_), {})
                    except Exception as ex:
                        rep.violation("symvec/vecsym raises %s UPLO=%s N=%d (%s)" % (type(ex).__name__, uplo, N, kind_), {"what": repr(ex)[-300:]})
            rep.replayed(1)
        elif k == "shift":
            D = r["D"]; smax = r["smax"]
            u = UTPM(numpy.arange(1, 1 + D * 2 * 3).reshape(D, 2, 3).astype(float))
            for s_str, m in r["maps"].items():
                s = int(s_str)
                if isinstance(m, dict):
                    m = [m[str(d)] for d in range(D)]
                rep.case(("shift", D, s), nontrivial=s != 0)
                try:
                    y = u.shift(s)
                except Exception as ex:
                    rep.violation("shift raises %s D=%d s=%d" % (type(ex).__name__, D, s), {"what": repr(ex)[-200:]})
                    continue
                exp = numpy.zeros_like(u.data)
                for d, src in enumerate(m):
                    if src >= 0:
                        exp[d] = u.data[src]
                if not numpy.array_equal(y.data, exp):
                    rep.violation("shift D=%d s=%d" % (D, s), {"got": y.data[:, 0, 0].tolist(), "expected": exp[:, 0, 0].tolist()})
                back = y.shift(-s)
                keep = [d for d in range(D) if 0 <= d + s < D]
                if not numpy.array_equal(back.data[keep], u.data[keep]):
                    rep.violation("shift(-s) o shift(s) D=%d s=%d" % (D, s), {})
                # the same round trip done in place on a part of a larger polynomial: out= a view of the object that is shifted
                big = UTPM(numpy.arange(1, 1 + D * 2 * 5).reshape(D, 2, 5).astype(float)); orig = big.data.copy()
                try:
                    big[1:4].shift(s, out=big[1:4]); big[1:4].shift(-s, out=big[1:4])
                    if not (numpy.array_equal(big.data[keep][:, :, 1:4], orig[keep][:, :, 1:4]) and numpy.array_equal(big.data[:, :, [0, 4]], orig[:, :, [0, 4]])):
                        rep.violation("shift(s) then shift(-s) in place (out= a view of the shifted object) loses the retained part D=%d s=%d" % (D, s), {})
                except Exception as ex:
                    rep.violation("in-place shift raises %s D=%d s=%d" % (type(ex).__name__, D, s), {"what": repr(ex)[-200:]})
            rep.replayed(1)
    # block containers and coefficient extraction: numpy.block / plain slicing on every coefficient slice as reference
    for it in range(6 if q else 30):
        D, P = int(rng.randint(1, 4)), int(rng.randint(1, 3))
        n1, n2, m1, m2 = [int(v) for v in rng.randint(1, 4, size=4)]
        blocks = [[UTPM(rng.randint(-5, 6, size=(D, P, n1, m1)).astype(float)), UTPM(rng.randint(-5, 6, size=(D, P, n1, m2)).astype(float))],
                  [UTPM(rng.randint(-5, 6, size=(D, P, n2, m1)).astype(float)), UTPM(rng.randint(-5, 6, size=(D, P, n2, m2)).astype(float))]]
        obj = numpy.empty((2, 2), dtype=object)
        for r_ in range(2):
            for c_ in range(2):
                obj[r_, c_] = blocks[r_][c_]
        for variant, cont in (("nested list", blocks), ("tuple of tuples", tuple(tuple(b) for b in blocks)), ("object array", obj)):
            rep.case(("combine_blocks", it, variant), nontrivial=True)
            try:
                X = UTPM.combine_blocks(cont)
                exp = numpy.array([[numpy.block([[b.data[d, p] for b in row] for row in blocks]) for p in range(P)] for d in range(D)])
                if X.data.shape != exp.shape or not numpy.array_equal(X.data, exp):
                    rep.violation("combine_blocks (%s)" % variant, {"D": D, "P": P, "got_shape": list(X.data.shape), "expected_shape": list(exp.shape)})
                else:
                    # and back: the blocks are the slices of the combined polynomial
                    back = X[:n1, m1:]
                    if not numpy.array_equal(back.data, blocks[0][1].data):
                        rep.violation("combine_blocks then slicing", {"D": D, "P": P})
            except Exception as ex:
                rep.violation("combine_blocks (%s) raises %s" % (variant, type(ex).__name__), {"what": repr(ex)[-200:]})
        x = UTPM(rng.randint(-5, 6, size=(3, 2, 2, 3)).astype(float))
        sl = (slice(1, 3), slice(0, 1)); shp = (2, 1, 6)
        rep.case(("coeff_op", it), nontrivial=True)
        y = x.coeff_op(sl, shp)
        if not numpy.array_equal(y.data, x.data[sl].reshape(shp)):
            rep.violation("coeff_op", {})
    # binding self-test
    r0 = next(r for r in res.records if r["kind"] == "piv" and len(r["piv"]) == 3 and r["sign"] == -1)
    if utils.piv2det(numpy.array(r0["piv"])) == -r0["sign"]:
        raise Machinery("self-test failed")
    rep.sample({"kind": "piv", "piv": r0["piv"], "perm": r0["perm"], "sign": r0["sign"]})
    rep.sample(next({"kind": "sym", "N": r["N"], "L": r["L"]} for r in res.records if r["kind"] == "sym" and r["N"] == 3))
    return rep.finish("cases: every pivot vector for N <= bound (all N! per N), every (D,P,shape) of the catalogue for the direction/base "
                      "conversions and nested containers, every N for symvec/vecsym x UPLO x {ndarray, UTPM}, every (D,s) for shift; "
                      "non-trivial = N>=2 / D*P>1 / s != 0", {"exhaustive": True})
