"""C10 Zeroth coefficient, shapes and comparisons follow NumPy.

Spec: UTPMachine shape rules and Cmp (x rel y = the NumPy comparison of ZEROTH coefficients over all elements and
directions, with NumPy broadcasting); Dispatch.tla (first argument providing the method wins, else numpy / numpy.linalg /
scipy.linalg).  M: TypeOK/Frame on the bounded machine; PlainIsNumpy, PolyWins on the dispatch table.
R: (i) behaviours with comparison actions replayed - the truth value must be the spec's; (ii) every TLC-generated
behaviour is re-run by NumPy itself on the zeroth coefficients of each direction: shape, len, size, ndim and the zeroth
coefficient of every object must agree after each action (NumPy is the reference the property names); (iii) the same for
every overloaded function outside the exact fragment (elementary, special, linear algebra, factorizations - signs and
pivots exactly NumPy's/SciPy's for QR, Cholesky, LU, eigh); (iv) the dispatch table: algopy-level calls with plain
arguments return bit-for-bit what NumPy/SciPy return, with polynomial arguments a UTPM.
"""
import numpy, scipy.linalg, scipy.special
from common import *
import utpm_replay as U

DCFG = """CONSTANTS Emit = TRUE
INIT Init
NEXT Next
INVARIANT PlainIsNumpy
INVARIANT PolyWins
INVARIANT EmitState
CHECK_DEADLOCK FALSE
"""


def functions_zeroth(rep, seed):
    algopy = load_algopy()
    from algopy import UTPM
    S = algopy.special
    rng = numpy.random.RandomState(seed % 2 ** 31)
    spd = lambda a: a @ a.T + 3 * numpy.eye(a.shape[0])
    CA = numpy.array([[1 + 2j, 0.5, -1j], [2., 1 - 1j, 3.], [0.25j, -2., 1.]])
    FA = numpy.array([[0.5, 1.25, -2.], [1.5, 0.75, 3.], [-0.25, 2., 1.]])
    IA = numpy.array([[1, 2, 3], [4, 5, 6], [7, 8, 9]])

    def toint(x):
        return UTPM(numpy.rint(x.data * 4).astype(int))
    cases = []
    un = [("exp", numpy.exp, 0), ("expm1", numpy.expm1, 0), ("log", numpy.log, 1), ("log1p", numpy.log1p, 1), ("sqrt", numpy.sqrt, 1),
          ("sin", numpy.sin, 0), ("cos", numpy.cos, 0), ("tan", numpy.tan, 0), ("arcsin", numpy.arcsin, 2), ("arccos", numpy.arccos, 2),
          ("arctan", numpy.arctan, 0), ("sinh", numpy.sinh, 0), ("cosh", numpy.cosh, 0), ("tanh", numpy.tanh, 0), ("sign", numpy.sign, 0),
          ("absolute", numpy.absolute, 0), ("square", numpy.square, 0), ("negative", numpy.negative, 0), ("reciprocal", numpy.reciprocal, 1)]
    for name, npf, dom in un:
        cases.append((name, lambda x, name=name: getattr(algopy, name)(x), npf, dom, [(), (3,), (2, 3), (2, 1, 2)]))
    for name, spf, dom in [("erf", scipy.special.erf, 0), ("erfi", scipy.special.erfi, 0), ("dawsn", scipy.special.dawsn, 0),
                           ("logit", scipy.special.logit, 4), ("expit", scipy.special.expit, 0), ("gammaln", scipy.special.gammaln, 1),
                           ("psi", scipy.special.psi, 1)]:
        cases.append(("special." + name, lambda x, name=name: getattr(S, name)(x), spf, dom, [(), (3,), (2, 3)]))
    cases.append(("special.polygamma(2,.)", lambda x: S.polygamma(2, x), lambda a: scipy.special.polygamma(2, a), 1, [(), (3,)]))
    cases.append(("special.hyperu(1,1.5,.)", lambda x: S.hyperu(1., 1.5, x), lambda a: scipy.special.hyperu(1., 1.5, a), 1, [(), (3,)]))
    cases.append(("x**2.5", lambda x: x ** 2.5, lambda a: a ** 2.5, 1, [(), (2, 3)]))
    cases.append(("x**-2", lambda x: x ** -2, lambda a: a ** -2.0, 1, [(), (2, 3)]))
    cases.append(("2**x", lambda x: 2.0 ** x, lambda a: 2.0 ** a, 0, [(), (2, 3)]))
    lin = [("inv", algopy.inv, numpy.linalg.inv), ("det", algopy.det, numpy.linalg.det),
           ("logdet", algopy.logdet, lambda a: numpy.linalg.slogdet(a)[1]),
           ("trace", algopy.trace, numpy.trace), ("diag(matrix)", algopy.diag, numpy.diag), ("transpose", algopy.transpose, numpy.transpose),
           ("triu", algopy.triu, numpy.triu), ("tril", algopy.tril, numpy.tril), ("sum", algopy.sum, numpy.sum), ("prod", lambda x: algopy.prod(x[0]), lambda a: numpy.prod(a[0])),
           ("qr[0]", lambda x: algopy.qr(x)[0], lambda a: numpy.linalg.qr(a)[0]), ("qr[1]", lambda x: algopy.qr(x)[1], lambda a: numpy.linalg.qr(a)[1]),
           ("qr_full[1]", lambda x: algopy.qr_full(x[:, :2])[1], lambda a: numpy.linalg.qr(a[:, :2], mode="complete")[1]),
           ("cholesky", lambda x: algopy.cholesky(algopy.dot(x, x.T) + 3 * numpy.eye(3)), lambda a: numpy.linalg.cholesky(spd(a))),
           ("lu[1]", lambda x: algopy.lu(x)[1], lambda a: scipy.linalg.lu(a)[1]), ("lu[2]", lambda x: algopy.lu(x)[2], lambda a: scipy.linalg.lu(a)[2]),
           ("lu[0]", lambda x: algopy.lu(x)[0], lambda a: scipy.linalg.lu(a)[0]),
           ("eigh[0]", lambda x: algopy.eigh(x + x.T)[0], lambda a: numpy.linalg.eigh(a + a.T)[0]),
           ("eigh[1]", lambda x: algopy.eigh(x + x.T)[1], lambda a: numpy.linalg.eigh(a + a.T)[1]),
           ("svd[1]", lambda x: algopy.svd(x)[1], lambda a: numpy.linalg.svd(a)[1]),
           ("expm", lambda x: algopy.expm(x * 0.25), lambda a: scipy.linalg.expm(a * 0.25)),
           ("dot", lambda x: algopy.dot(x, x[0]), lambda a: numpy.dot(a, a[0])), ("outer", lambda x: algopy.outer(x[0], x[1][:2]), lambda a: numpy.outer(a[0], a[1][:2])),
           ("solve", lambda x: algopy.solve(x, x.T + 1.), lambda a: numpy.linalg.solve(a, a.T + 1.)),
           ("symvec", lambda x: algopy.symvec(x), lambda a: algopy.symvec(a)), ("tile", lambda x: algopy.tile(x, (2, 1)), lambda a: numpy.tile(a, (2, 1))),
           ("reshape", lambda x: algopy.reshape(x, (9,)), lambda a: numpy.reshape(a, (9,))),
           ("tile reps longer than ndim", lambda x: algopy.tile(x[0], (2, 2)), lambda a: numpy.tile(a[0], (2, 2))),
           ("tile 3 reps on a matrix", lambda x: algopy.tile(x, (2, 1, 2)), lambda a: numpy.tile(a, (2, 1, 2))),
           ("tile int reps", lambda x: algopy.tile(x, 2), lambda a: numpy.tile(a, 2)),
           ("dot(x, complex array)", lambda x: algopy.dot(x, CA), lambda a: numpy.dot(a, CA)),
           ("dot(complex array, x)", lambda x: algopy.dot(CA, x), lambda a: numpy.dot(CA, a)),
           ("dot(int polynomial, float array)", lambda x: algopy.dot(toint(x), FA), lambda a: numpy.dot(numpy.rint(a * 4).astype(int), FA)),
           ("x * complex array", lambda x: x * CA, lambda a: a * CA), ("complex array / x", lambda x: CA / (x * x + 1.), lambda a: CA / (a * a + 1.)),
           ("x + complex scalar", lambda x: x + (1 + 2j), lambda a: a + (1 + 2j)), ("x - int array", lambda x: x - IA, lambda a: a - IA),
           ("solve(x, complex array)", lambda x: algopy.solve(x, CA), lambda a: numpy.linalg.solve(a, CA)),
           ("outer(x, complex vector)", lambda x: algopy.outer(x[0], CA[0]), lambda a: numpy.outer(a[0], CA[0])),
           ("sum axis -1", lambda x: algopy.sum(x, axis=-1), lambda a: numpy.sum(a, axis=-1)),
           ("minimum", lambda x: algopy.minimum(x, x.T), lambda a: numpy.minimum(a, a.T)), ("maximum", lambda x: algopy.maximum(x, x.T), lambda a: numpy.maximum(a, a.T)),
           ("fft", lambda x: algopy.fft.fft(x), lambda a: numpy.fft.fft(a)), ("ifft axis 0", lambda x: algopy.fft.ifft(x, axis=0), lambda a: numpy.fft.ifft(a, axis=0)),
           ("zeros_like", lambda x: algopy.zeros_like(x), numpy.zeros_like), ("ones((2,3),dtype=x)", lambda x: algopy.ones((2, 3), dtype=x), lambda a: numpy.ones((2, 3))),
           ]
    for name, f, npf in lin:
        cases.append((name, f, npf, 3, [(3, 3)]))
    # the functions NumPy defines for matrices of any shape: wide, tall (rows >= columns + 2), single row / column
    RECT = [(2, 4), (4, 2), (5, 3), (3, 1), (1, 4)]
    rect = [("trace", algopy.trace, numpy.trace), ("diag(matrix)", algopy.diag, numpy.diag), ("transpose", algopy.transpose, numpy.transpose),
            ("triu", algopy.triu, numpy.triu), ("tril", algopy.tril, numpy.tril), ("sum", algopy.sum, numpy.sum),
            ("sum axis 0", lambda x: algopy.sum(x, axis=0), lambda a: numpy.sum(a, axis=0)), ("sum axis -1", lambda x: algopy.sum(x, axis=-1), lambda a: numpy.sum(a, axis=-1)),
            ("prod", algopy.prod, numpy.prod), ("dot(x, x.T)", lambda x: algopy.dot(x, x.T), lambda a: numpy.dot(a, a.T)),
            ("dot(x.T, x)", lambda x: algopy.dot(x.T, x), lambda a: numpy.dot(a.T, a)),
            ("outer(rows)", lambda x: algopy.outer(x[0], x[-1]), lambda a: numpy.outer(a[0], a[-1])),
            ("tile", lambda x: algopy.tile(x, (2, 1)), lambda a: numpy.tile(a, (2, 1))),
            ("reshape", lambda x: algopy.reshape(x, (x.size,)), lambda a: numpy.reshape(a, (a.size,))),
            ("qr[1]", lambda x: algopy.qr(x)[1], lambda a: numpy.linalg.qr(a)[1]),
            ("fft axis 0", lambda x: algopy.fft.fft(x, axis=0), lambda a: numpy.fft.fft(a, axis=0)),
            ("zeros_like", lambda x: algopy.zeros_like(x), numpy.zeros_like)]
    for k in (-2, -1, 1, 2, 3):
        rect.append(("diag(matrix, %d)" % k, lambda x, k=k: algopy.diag(x, k), lambda a, k=k: numpy.diag(a, k)))
        rect.append(("triu(matrix, %d)" % k, lambda x, k=k: algopy.triu(x, k), lambda a, k=k: numpy.triu(a, k)))
        rect.append(("tril(matrix, %d)" % k, lambda x, k=k: algopy.tril(x, k), lambda a, k=k: numpy.tril(a, k)))
    for name, f, npf in rect:
        shapes = [sh for sh in RECT if not (name == "qr[1]" and sh[0] < sh[1])]
        if name.startswith("diag(matrix, "):
            k = int(name[13:-1])
            shapes = [sh for sh in shapes if (min(sh[0], sh[1] - k) if k >= 0 else min(sh[0] + k, sh[1])) > 0]      # (non-empty diagonals)
        cases.append((name + " (rectangular)", f, npf, 0, shapes))
    for name, f, npf, dom, shapes in cases:
        for shp in shapes:
            for (D, P) in ((1, 1), (3, 2)):
                base = rng.uniform(-1, 1, size=(P,) + shp)
                if dom == 1:
                    base = abs(base) + 0.5
                elif dom == 2:
                    base = base * 0.8
                elif dom == 4:
                    base = abs(base) * 0.8 + 0.1
                elif dom == 3:
                    base = base + numpy.array([numpy.diag([3., -2., 4.]) if p % 2 == 0 else numpy.array([[0.1, 2., 0.], [3., 0.2, 0.5], [0.3, 0.1, -2.]]) for p in range(P)])
                data = rng.uniform(-1, 1, size=(D, P) + shp)
                data[0] = base
                rep.case(("fn", name, shp, D, P), nontrivial=D >= 2); rep.replayed(1)
                try:
                    y = f(UTPM(data.copy()))
                    for p in range(P):
                        ref = numpy.asarray(npf(data[0, p].copy()))
                        got = y.data[0, p]
                        if got.shape != ref.shape or y.shape != ref.shape or y.ndim != ref.ndim or y.size != ref.size:
                            rep.violation("%s: shape/size/ndim" % name, {"input_shape": shp, "D": D, "P": P, "algopy": list(y.shape), "numpy": list(ref.shape)}); break
                        if not numpy.allclose(got, ref, rtol=1e-12, atol=1e-13):
                            rep.violation("%s: zeroth coefficient differs from NumPy/SciPy" % name, {"input_shape": shp, "D": D, "P": P, "direction": p, "err": float(abs(got - ref).max())}); break
                except Exception as ex:
                    rep.violation("%s raises %s" % (name, type(ex).__name__), {"input_shape": shp, "D": D, "P": P, "what": repr(ex)[-300:]})


def function_comparisons(rep):
    """comparison operators on tracer nodes: the truth value NumPy gives for the wrapped values (ties included), so that
    data-dependent branches take the same path while recording"""
    import operator
    algopy = load_algopy()
    from algopy import UTPM
    vals = [0.0, 1.0, -2.0, 1.0]
    for a in vals:
        for b in vals:
            for kind in ("float", "ndarray", "utpm"):
                if kind == "float":
                    xa, xb, ra, rb = a, b, a, b
                elif kind == "ndarray":
                    xa, xb = numpy.array([a, 1.0]), numpy.array([b, 1.0]); ra, rb = xa, xb
                else:
                    xa, xb = UTPM(numpy.array([[[a, 1.0]], [[5.0, -3.0]]])), UTPM(numpy.array([[[b, 1.0]], [[-7.0, 2.0]]]))
                    ra, rb = xa.data[0, 0], xb.data[0, 0]
                cg = algopy.CGraph()
                fa, fb = algopy.Function(xa), algopy.Function(xb)
                cg.trace_off()
                for nm, op in (("<", operator.lt), ("<=", operator.le), (">", operator.gt), (">=", operator.ge)):
                    want = bool(numpy.all(op(ra, rb)))
                    for desc, call in (("F %s F" % nm, lambda: op(fa, fb)), ("F %s value" % nm, lambda: op(fa, xb)), ("value %s F" % nm, lambda: op(xa, fb))):
                        if kind != "float" and desc.startswith("value"):
                            continue          # ndarray/UTPM on the left dispatch to their own operators
                        rep.case(("fcmp", a, b, kind, desc), nontrivial=True)
                        try:
                            got = bool(numpy.all(call()))
                        except Exception as ex:
                            rep.violation("Function comparison %s raises %s" % (desc, type(ex).__name__), {"kind": kind}); continue
                        if got != want:
                            rep.violation("Function comparison %s (%s operands)" % (desc, kind), {"a": a, "b": b, "got": got, "numpy": want})


def dispatch(rep):
    algopy = load_algopy()
    from algopy import UTPM
    res = tlc_ok(run_tlc("Dispatch", DCFG, workers=4, timeout=300), "Dispatch")
    rep.add_tlc(res, "Dispatch")
    rng = numpy.random.RandomState(5)
    A = rng.uniform(0.2, 0.8, size=(3, 3)) + numpy.diag([2., 3., 4.])
    A = A + A.T
    mk = {"U": lambda: UTPM(numpy.array([A, 0.1 * A])[:, None].copy()), "A": lambda: A.copy(), "S": lambda: 0.625}
    spfun = {"logdet": lambda a: numpy.linalg.slogdet(a)[1], "lu": scipy.linalg.lu, "pow": numpy.power}
    for r in res.records:
        name, kinds, route = r["name"], r["kinds"], r["route"]
        if "S" in kinds and name in ("trace", "diag", "triu", "tril", "transpose", "inv", "det", "qr", "cholesky", "eigh", "eig", "svd", "lu", "logdet", "prod"):
            continue       # NumPy itself rejects scalars here
        if "S" in kinds and name in ("conjugate", "real", "imag"):
            continue       # python scalars provide these attributes themselves
        if name in ("minimum", "maximum") and set(kinds) == {"U", "A"}:
            continue       # documented as not implemented (explicit NotImplementedError) for mixed polynomial / array operands
        args = [mk[k]() for k in kinds]
        if name == "outer":
            args = [a[i_] if not isinstance(a, float) else a for i_, a in enumerate(args)]      # (different rows: the result is not symmetric)
        if name == "solve" and kinds == ["A", "U"]:
            pass
        fn = getattr(algopy, name)
        rep.case(("dispatch", name, tuple(kinds)), nontrivial=True); rep.replayed(1)
        try:
            got = fn(*args)
            first = got[0] if isinstance(got, tuple) else got
            if route == "U":
                if not isinstance(first, UTPM):
                    rep.violation("dispatch %s%s: a polynomial argument must give a polynomial result" % (name, kinds), {"type": type(first).__name__})
                elif name in ("dot", "outer", "solve", "minimum", "maximum"):
                    # every operand-kind combination of the binary functions: zeroth coefficient and shape per direction from NumPy
                    npf = numpy.linalg.solve if name == "solve" else getattr(numpy, name)
                    for p_ in range(first.data.shape[1]):
                        ref = npf(*[a.data[0, p_] if isinstance(a, UTPM) else a for a in args])
                        if first.data[0, p_].shape != numpy.shape(ref) or not numpy.allclose(first.data[0, p_], ref, rtol=1e-12, atol=1e-13):
                            rep.violation("dispatch %s%s: zeroth coefficient differs from NumPy" % (name, kinds), {"direction": p_}); break
            else:
                npf = spfun.get(name) or getattr(numpy.linalg if route == "numpy.linalg" else numpy, name)
                ref = npf(*[mk[k]() if name != "outer" else (mk[k]()[i_] if k == "A" else mk[k]()) for i_, k in enumerate(kinds)])
                rf = ref[0] if isinstance(ref, tuple) else ref
                if type(first) is not type(rf) or not numpy.array_equal(numpy.asarray(first), numpy.asarray(rf), equal_nan=True):
                    rep.violation("dispatch %s%s: plain arguments must give exactly the NumPy/SciPy result" % (name, kinds),
                                  {"type": type(first).__name__, "numpy_type": type(rf).__name__})
        except Exception as ex:
            rep.violation("dispatch %s%s raises %s" % (name, kinds, type(ex).__name__), {"what": repr(ex)[-300:]})
    rep.sample({"dispatch": res.records[:3]})


def run(rep, tier, seed):
    q = tier == "quick"
    lim = 1500 if q else 20000
    cmpc = [
        dict(name="cmp_vec_P2", D=2, P=2, pool="PoolVec2", acts="ActsCmp", maxlen=2, cmps="CmpSet"),
        dict(name="cmp_bcast_P2", D=2, P=2, pool="PoolBcast", acts="ActsCmp", maxlen=1 if q else 2, cmps="CmpSet"),
        dict(name="cmp_scal_P3", D=1, P=3, pool="PoolScal", acts="ActsCmp", maxlen=2, cmps="CmpSet"),
    ]
    U.machine_check(rep, cmpc, "C10", variants=(0, 1))
    configs = [
        dict(name="zeroth_arith", D=2, P=2, pool="PoolBcast", acts="ActsArith", scal="ScalSet", maxlen=1 if q else 2),
        dict(name="zeroth_bcastP", D=2, P=2, pool="PoolBcastP", acts="ActsBin", maxlen=1),
        dict(name="zeroth_shape_mat", D=2, P=1, pool="PoolMat", acts="ActsShape", idx="IdxMat", rs="RsCat", maxlen=1, maxobjs=6),
        dict(name="zeroth_shape_3d", D=2, P=2, pool="Pool3D", acts="ActsShape", idx="IdxMat", rs="RsCat", maxlen=1, maxobjs=6),
        dict(name="zeroth_scal", D=3, P=2, pool="PoolScal", acts="ActsAll", idx="IdxVec", rs="RsCat", maxlen=1, maxobjs=6),
        dict(name="zeroth_complex_mix", module="MC_CUTPM", D=2, P=2, pool="PoolCx1", acts="ActsArith", scal="ScalCx", maxlen=1),
    ]
    U.relational_check(rep, configs, "zeroth", limit=lim)
    functions_zeroth(rep, seed)
    function_comparisons(rep)
    dispatch(rep)
    U.self_test(rep)
    rep.assumptions += ["NumPy/SciPy are the reference (as the property states); factor matrices fixed only up to sign/layout (singular vectors, eig) are excluded here and covered by C08"]
    return rep.finish("cases: TLC behaviours with comparison actions (exact truth values); every TLC behaviour re-run by NumPy on the zeroth coefficients "
                      "per direction (shape, len, size, ndim, values); 70 functions x shapes x (D,P); the dispatch table; non-trivial = D >= 2 or at least one action")
