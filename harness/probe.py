"""Run-time probe of the tracer (no source hooks): when ALGOPY_VERIF_PROBE=1, wrappers around the linearisation points of
algopy.tracer.tracer emit one event per action of spec/TraceTracer.tla, with arguments and cheap scalar state.
Node and graph ids are assigned in order of first appearance (never id() values); order = program order of the single thread."""
import os, json, zlib
import numpy

EVENTS = []
_ids = {}
_gids = {}
_keep = []          # keep probed objects alive so that id() values are not reused
_state = {"mode": None, "depth": 0, "installed": False}


def nid(obj):
    k = id(obj)
    if k not in _ids:
        _ids[k] = len(_ids) + 1; _keep.append(obj)
    return _ids[k]


def gid(g):
    k = id(g)
    if k not in _gids:
        _gids[k] = len(_gids) + 1; _keep.append(g)
    return _gids[k]


def reset():
    EVENTS.clear(); _ids.clear(); _gids.clear(); _keep.clear(); _state["mode"] = None


def digest(x):
    try:
        import algopy
        if isinstance(x, algopy.UTPM):
            return zlib.crc32(numpy.ascontiguousarray(x.data).tobytes()) & 0x3FFFFFFF
        if isinstance(x, numpy.ndarray):
            return zlib.crc32(numpy.ascontiguousarray(x).tobytes()) & 0x3FFFFFFF
        if isinstance(x, tuple):
            d = 17
            for xi in x:
                d = (d * 31 + digest(xi)) & 0x3FFFFFFF
            return d
    except Exception:
        pass
    return 0


def _data(x):
    import algopy
    if isinstance(x, algopy.UTPM):
        return x.data
    if isinstance(x, numpy.ndarray):
        return x
    return None


def arg_digests(f):
    """digests of the forward values of the Function arguments of node f (what its pullback is going to read)"""
    import algopy
    return [digest(a.x) for a in f.args if isinstance(a, algopy.Function) and a is not f]


def share_pos(cg, f, attr):
    """position (in functionList) of the first Function argument whose attr (x / xbar) shares memory with f's; -1 if none"""
    import algopy
    d = _data(getattr(f, attr, None))
    if d is None:
        return -1
    for a in f.args:
        if isinstance(a, algopy.Function) and a is not f:
            da = _data(getattr(a, attr, None))
            if da is not None and numpy.shares_memory(d, da):
                try:
                    return cg.functionList.index(a)
                except ValueError:
                    return -2
    return -1


def install():
    if _state["installed"] or os.environ.get("ALGOPY_VERIF_PROBE") != "1":
        return _state["installed"]
    import algopy
    from algopy.tracer import tracer as T
    CG, F = T.CGraph, T.Function

    o_init = CG.__init__
    def n_init(self, *a, **k):
        o_init(self, *a, **k)
        EVENTS.append({"ev": "NewGraph", "g": gid(self)})
    CG.__init__ = n_init

    o_on, o_off = CG.trace_on, CG.trace_off
    def n_on(self):
        r = o_on(self); EVENTS.append({"ev": "TraceOn", "g": gid(self)}); return r
    def n_off(self):
        r = o_off(self); EVENTS.append({"ev": "TraceOff", "g": gid(self)}); return r
    CG.trace_on, CG.trace_off = n_on, n_off

    o_create = F.create.__func__
    def n_create(cls, x, fargs, fkwargs, func, f=None):
        cg = cls.cgraph
        before = cg.functionCount if cg is not None else -1
        r = o_create(cls, x, fargs, fkwargs, func, f)
        args = [nid(a) for a in fargs if isinstance(a, F) and a is not r]
        EVENTS.append({"ev": "Create", "n": nid(r), "g": gid(cg) if cg is not None else 0,
                       "id": r.ID if cg is not None and getattr(r, "ID", None) is not None else -1,
                       "pos": (cg.functionList.index(r) if cg is not None and r in cg.functionList else -1),
                       "cnt": cg.functionCount if cg is not None else -1, "before": before, "ad": arg_digests(r),
                       "args": args, "op": getattr(func, "__name__", "?"), "set": getattr(func, "__name__", "") == "setitem"})
        return r
    F.create = classmethod(n_create)

    o_pf = F.pushforward.__func__
    def n_pf(cls, func, Fargs, Fkwargs={}, Fout=None, setitem=None):
        r = o_pf(cls, func, Fargs, Fkwargs, Fout, setitem)
        m = _state["mode"]
        if Fout is not None and m is not None:
            cg = m[1]
            try:
                k = cg.functionList.index(Fout)
            except ValueError:
                k = -1
            EVENTS.append({"ev": "FwdNode" if m[0] == "fwd" else "Redo", "g": gid(cg), "k": k, "ad": arg_digests(Fout)})
        return r
    F.pushforward = classmethod(n_pf)

    o_cpf = CG.pushforward
    def n_cpf(self, x_list):
        EVENTS.append({"ev": "FwdBegin", "g": gid(self), "n": len(self.functionList)})
        old = _state["mode"]; _state["mode"] = ("fwd", self)
        ok = False
        try:
            r = o_cpf(self, x_list); ok = True
            return r
        finally:
            _state["mode"] = old
            EVENTS.append({"ev": "FwdEnd", "g": gid(self), "ok": ok, "dig": [digest(f.x) for f in self.functionList]})
    CG.pushforward = n_cpf

    o_xb = F.xbar_from_x
    def n_xb(self):
        r = o_xb(self)
        m = _state["mode"]
        if m is not None and m[0] == "pb":
            cg = m[1]
            try:
                k = cg.functionList.index(self)
            except ValueError:
                k = -1
            EVENTS.append({"ev": "BarInit", "g": gid(cg), "k": k, "vshare": share_pos(cg, self, "x"), "bshare": share_pos(cg, self, "xbar")})
        return r
    F.xbar_from_x = n_xb

    o_pb = F.pullback.__func__
    def n_pb(cls, Fn):
        ad = arg_digests(Fn)           # BEFORE the pullback (which restores overwritten buffer entries afterwards)
        r = o_pb(cls, Fn)
        m = _state["mode"]
        if m is not None and m[0] == "pb":
            cg = m[1]
            try:
                k = cg.functionList.index(Fn)
            except ValueError:
                k = -1
            EVENTS.append({"ev": "PbNode", "g": gid(cg), "k": k, "ad": ad})
        return r
    F.pullback = classmethod(n_pb)

    o_cpb = CG.pullback
    def n_cpb(self, xbar_list):
        EVENTS.append({"ev": "PbBegin", "g": gid(self), "n": len(self.functionList), "dig": [digest(f.x) for f in self.functionList],
                       "sets": [k for k, f in enumerate(self.functionList) if T.is_set(f.setitem)]})
        old = _state["mode"]; _state["mode"] = ("pb", self)
        ok = False
        try:
            r = o_cpb(self, xbar_list); ok = True
            return r
        finally:
            _state["mode"] = old
            EVENTS.append({"ev": "PbEnd", "g": gid(self), "ok": ok, "dig": [digest(f.x) for f in self.functionList]})
    CG.pullback = n_cpb
    _state["installed"] = True
    return True
