"""Replay of UTPMachine behaviours (spec -> code) with comparison of the projected heap after every action."""
import operator, json
from fractions import Fraction
import numpy
from common import *

NONE = 99
OPS = {"add": operator.add, "sub": operator.sub, "mul": operator.mul, "div": operator.truediv}
IOPS = {"add": operator.iadd, "sub": operator.isub, "mul": operator.imul, "div": operator.itruediv}

MC_CFG = """CONSTANTS Dg = {D}
 Pg = {P}
 Pool <- {pool}
 Acts <- {acts}
 IdxCat <- {idx}
 Scalars <- {scal}
 CmpScalars <- {cmps}
 ReshapeCat <- {rs}
 TileCat <- {tiles}
 MaxLen = {maxlen}
 MaxObjs = {maxobjs}
 MaxAbs = 200000
 Emit = {emit}
SPECIFICATION Spec
INVARIANT TypeOK
INVARIANT EmitState
PROPERTY Frame
PROPERTY ViewSemantics
CONSTRAINT Small
CHECK_DEADLOCK FALSE
"""


def cfg(D, P, pool, acts, idx="IdxSmall", scal="ScalOne", rs="NoRs", maxlen=2, maxobjs=5, emit=True, cmps="NoScal", tiles="NoTiles"):
    return MC_CFG.format(D=D, P=P, pool=pool, acts=acts, idx=idx, scal=scal, rs=rs, maxlen=maxlen,
                         maxobjs=maxobjs, emit="TRUE" if emit else "FALSE", cmps=cmps, tiles=tiles)


def py_index(ix):
    items = []
    for it in ix:
        t = it[0]
        if t == "i":
            items.append(int(it[1]))
        elif t == "s":
            lo, hi, st = it[1], it[2], it[3]
            items.append(slice(None if lo == NONE else lo, None if hi == NONE else hi, st))
        elif t == "n":
            items.append(None)
        elif t == "e":
            items.append(Ellipsis)
    if len(items) == 1:
        return items[0]
    return tuple(items)


def scalar_of(q, variant):
    f = to_frac(q)
    if isinstance(f, tuple):
        c = complex(float(f[0]), float(f[1]))
        return [c, numpy.complex128(c)][variant % 2]
    kinds = []
    if f.denominator == 1:
        kinds += [int(f), numpy.int64(int(f))]
    kinds += [float(f), numpy.float64(float(f)), numpy.float32(float(f)) if f.denominator in (1, 2, 4) else float(f)]
    return kinds[variant % len(kinds)]


def addresses(a):
    """byte address of every element of ndarray a, C order"""
    ptr = a.__array_interface__["data"][0]
    if a.ndim == 0:
        return numpy.array([ptr])
    idx = numpy.indices(a.shape).reshape(a.ndim, -1)
    return ptr + (idx * numpy.array(a.strides).reshape(-1, 1)).sum(axis=0)


class Mismatch(Exception):
    def __init__(self, clause, info):
        self.clause = clause; self.info = info


class Replayer:
    def __init__(self, algopy, init_objs, variant=0, slicewise=True):
        self.algopy = algopy
        self.variant = variant
        self.slicewise = slicewise
        self.noalias = set()
        self.objs = []
        for o in init_objs:
            nums = [to_num(v) for v in o["vals"]]
            dt = complex if any(isinstance(v, complex) for v in nums) else float
            vals = numpy.array(nums, dtype=dt).reshape(o["shape"]) if o["shape"] else numpy.array(nums[0], dtype=dt)
            if o["k"] == "U":
                self.objs.append(algopy.UTPM(vals.copy()))
            elif o["k"] == "Z":
                self.objs.append(vals.copy())
            else:
                a = vals.copy()
                if variant % 3 == 1 and all(not isinstance(to_frac(v), tuple) and to_frac(v).denominator == 1 for v in o["vals"]):
                    a = a.astype(int)
                self.objs.append(a)

    def data(self, k):
        o = self.objs[k]
        return o.data if isinstance(o, self.algopy.UTPM) else o

    def step(self, rec):
        al = self.algopy
        a = rec["a"]
        X = self.objs
        i = rec.get("i", 0) - 1
        j = rec.get("j", 0) - 1
        res = None
        if a == "bin":
            res = OPS[rec["op"]](X[i], X[j])
        elif a == "bina":
            res = OPS[rec["op"]](X[i], X[j]) if rec["side"] == "r" else OPS[rec["op"]](X[j], X[i])
        elif a == "bins":
            c = scalar_of(rec["c"], self.variant)
            res = OPS[rec["op"]](X[i], c) if rec["side"] == "r" else OPS[rec["op"]](c, X[i])
        elif a in ("ibin", "ibina"):
            x = X[i]
            r = IOPS[rec["op"]](x, X[j])
            if r is not x:
                raise Mismatch("inplace-identity", "in-place operator returned a different object")
        elif a == "ibins":
            x = X[i]
            r = IOPS[rec["op"]](x, scalar_of(rec["c"], self.variant))
            if r is not x:
                raise Mismatch("inplace-identity", "in-place operator returned a different object")
        elif a == "powi":
            res = X[i] ** int(rec["n"])
        elif a == "unary":
            f = rec["f"]
            if f == "neg":
                res = -X[i] if self.variant % 2 == 0 else al.negative(X[i])
            elif f == "square":
                res = al.square(X[i])
            elif f == "reciprocal":
                res = al.reciprocal(X[i])
            elif f == "clone":
                res = X[i].clone() if self.variant % 2 == 0 else X[i].copy()
            elif f == "zeros_like":
                res = X[i].zeros_like() if self.variant % 2 == 0 else al.zeros(X[i].shape, dtype=X[i])
        elif a == "getitem":
            res = X[i][py_index(rec["ix"])]
            if self.slicewise:
                self.slice_check(res, X[i], lambda s: s[py_index(rec["ix"])], "getitem")
        elif a == "setitem":
            X[i][py_index(rec["ix"])] = X[j]
        elif a == "setitema":
            X[i][py_index(rec["ix"])] = X[j]
        elif a == "setitems":
            X[i][py_index(rec["ix"])] = scalar_of(rec["c"], self.variant)
        elif a == "transpose":
            res = X[i].T if self.variant % 2 == 0 else al.transpose(X[i])
            if self.slicewise:
                self.slice_check(res, X[i], lambda s: s.T, "transpose")
        elif a == "reshape":
            es = tuple(rec["es"])
            res = al.reshape(X[i], es) if self.variant % 2 == 0 else X[i].reshape(es)
            if self.slicewise:
                self.slice_check(res, X[i], lambda s: s.reshape(es), "reshape")
        elif a == "sum":
            ax = None if rec["axis"] == NONE else int(rec["axis"])
            res = al.sum(X[i], axis=ax) if self.variant % 2 == 0 else (X[i].sum(axis=ax) if ax is not None else numpy.sum(X[i]))
            if self.slicewise:
                self.slice_check(res, X[i], lambda s: numpy.sum(s, axis=ax), "sum", exact=False)
        elif a == "tile":
            reps = tuple(rec["reps"]) if len(rec["reps"]) > 1 or self.variant % 2 else int(rec["reps"][0])
            res = al.tile(X[i], reps)
            if self.slicewise:
                self.slice_check(res, X[i], lambda s_: numpy.tile(s_, reps), "tile")
        elif a == "diag":
            k = int(rec["k"])
            res = al.diag(X[i]) if k == 0 else al.diag(X[i], k)
            if self.slicewise:
                self.slice_check(res, X[i], lambda s_: numpy.diag(s_, k), "diag")
        elif a in ("triu", "tril"):
            k = int(rec["k"])
            res = getattr(al, a)(X[i]) if k == 0 else getattr(al, a)(X[i], k)
            if self.slicewise:
                self.slice_check(res, X[i], lambda s_: getattr(numpy, a)(s_, k), a)
        elif a == "trace":
            res = al.trace(X[i])
            if self.slicewise:
                self.slice_check(res, X[i], lambda s_: numpy.trace(s_), "trace", exact=False)
        elif a in ("zeros", "ones"):
            es = tuple(rec["es"])
            if a == "zeros" and self.variant % 3 == 2:
                res = al.UTPM.zeros(es, dtype=X[i])
            else:
                res = getattr(al, a)(es, dtype=X[i]) if self.variant % 2 == 0 or len(es) != 1 else getattr(al, a)(es[0], dtype=X[i])
        elif a in ("conjugate", "real", "imag"):
            res = getattr(al, a)(X[i])
            if a != "conjugate":                   # numpy.conjugate always returns a new array; numpy.real / imag return views or not
                self.noalias.add(len(self.objs))    # depending on the dtype: not part of the property
            if self.slicewise:
                self.slice_check(res, X[i], lambda s_: getattr(numpy, a)(s_), a)
        elif a in ("fft", "ifft"):
            res = getattr(al.fft, a)(X[i])
            if self.slicewise:
                self.slice_check(res, X[i], lambda s_: getattr(numpy.fft, a)(s_), a, exact=False)
        elif a == "cmp":
            import operator as _op
            relf = {"lt": _op.lt, "le": _op.le, "gt": _op.gt, "ge": _op.ge, "eq": _op.eq, "ne": _op.ne}[rec["rel"]]
            rhs = X[j] if rec["j"] else scalar_of(rec["c"], self.variant)
            got = relf(X[i], rhs)
            if rec["rel"] in ("eq", "ne") and not isinstance(got, (bool, numpy.bool_)):
                raise Mismatch("cmp-type", "%s returns %s" % (rec["rel"], type(got).__name__))
            if bool(got) != bool(rec["res"]):
                raise Mismatch("cmp", "x %s y is %r, spec %r" % (rec["rel"], bool(got), rec["res"]))
        else:
            raise Machinery("unknown action " + a)
        if res is not None:
            self.objs.append(res)

    def slice_check(self, res, src, npop, name, exact=True):
        """the same NumPy operation applied to every coefficient slice (d,p)"""
        if not isinstance(res, self.algopy.UTPM):
            raise Mismatch("type", "%s returned %s" % (name, type(res)))
        D, P = src.data.shape[:2]
        for d in range(D):
            for p in range(P):
                want = npop(src.data[d, p])
                got = res.data[d, p]
                if numpy.shape(want) != numpy.shape(got):
                    raise Mismatch("slicewise-shape", "%s slice (%d,%d): numpy %s, algopy %s" % (name, d, p, numpy.shape(want), numpy.shape(got)))
                ok = numpy.array_equal(want, got) if exact else numpy.allclose(want, got, rtol=1e-12, atol=1e-12)
                if not ok:
                    raise Mismatch("slicewise-value", "%s slice (%d,%d) differs from numpy" % (name, d, p))

    def compare(self, spec_objs):
        """spec_objs: list of projections [k, buf, shape, cells, vals] - compare with the real objects"""
        if len(spec_objs) != len(self.objs):
            raise Mismatch("object-count", "%d vs %d" % (len(spec_objs), len(self.objs)))
        s2r, r2s = {}, {}
        for k, so in enumerate(spec_objs):
            ro = self.objs[k]
            if so["k"] == "U" and not isinstance(ro, self.algopy.UTPM):
                raise Mismatch("type", "object %d is %s, expected UTPM" % (k + 1, type(ro).__name__))
            d = self.data(k)
            if tuple(d.shape) != tuple(so["shape"]):
                raise Mismatch("shape", "object %d: shape %s, spec %s" % (k + 1, tuple(d.shape), tuple(so["shape"])))
            flat = d.reshape(-1) if d.ndim else d.reshape(1)
            for n, (v, q) in enumerate(zip(flat, so["vals"])):
                if not close(v, to_frac(q)):
                    raise Mismatch("value", "object %d element %d: got %r, spec %s" % (k + 1, n, v, to_frac(q)))
            if so.get("real") is False and not numpy.iscomplexobj(d):
                raise Mismatch("dtype", "object %d: the imaginary part was dropped (dtype %s)" % (k + 1, d.dtype))
            if so.get("ct") is True and not numpy.iscomplexobj(d):
                raise Mismatch("dtype", "object %d: NumPy's promotion gives a complex-typed result, got dtype %s" % (k + 1, d.dtype))
            if k in self.noalias or so["buf"] in {spec_objs[n]["buf"] for n in self.noalias if n < len(spec_objs)}:
                continue          # (also views of such a result: they live in the same storage, whichever it is)
            ad = addresses(d)
            for n, (adr, c) in enumerate(zip(ad, so["cells"])):
                key = (so["buf"], c)
                adr = int(adr)
                if s2r.setdefault(key, adr) != adr:
                    raise Mismatch("aliasing", "object %d element %d should share memory with another object's element but does not" % (k + 1, n))
                if r2s.setdefault(adr, key) != key:
                    raise Mismatch("aliasing", "object %d element %d shares memory with data the spec keeps separate" % (k + 1, n))


def run_behaviours(rep, algopy, records, pid, tag, variants=(0,), nontrivial=lambda h: len(h) >= 1, slicewise=True):
    """records: TLC output states [h, o].  Replays every maximal behaviour step by step."""
    by_h = {}
    for r in records:
        by_h[json.dumps(r["h"], sort_keys=True)] = r
    if "[]" not in by_h:
        raise Machinery("initial state missing in TLC output (%s)" % tag)
    init = by_h["[]"]["o"]
    hs = [r["h"] for r in records]
    prefixes = set()
    for h in hs:
        for n in range(len(h)):
            prefixes.add(json.dumps(h[:n], sort_keys=True))
    leaves = [h for h in hs if json.dumps(h, sort_keys=True) not in prefixes]
    for bi, h in enumerate(leaves):
        for variant in variants:
            v = variant + bi
            rp = Replayer(algopy, init, variant=v, slicewise=slicewise)
            try:
                rp.compare(init)
            except Mismatch as m:
                raise Machinery("initial pool does not project to the spec's initial state: %s" % m.info)
            for n in range(1, len(h) + 1):
                rec = h[n - 1]
                exp = by_h.get(json.dumps(h[:n], sort_keys=True))
                if exp is None:
                    raise Machinery("prefix state missing in TLC output")
                sig = None
                try:
                    rp.step(rec)
                    rp.compare(exp["o"])
                except Mismatch as m:
                    sig = "%s %s" % (act_sig(rec, h[:n - 1], init), m.clause)
                    info = m.info
                except Machinery:
                    raise
                except Exception as e:
                    sig = "%s raises %s" % (act_sig(rec, h[:n - 1], init), type(e).__name__)
                    info = repr(e)[:300]
                if sig:
                    rep.violation(sig, {"behaviour": h[:n], "initial_objects": init, "variant": v, "what": info,
                                        "expected_state": exp["o"], "spec": tag})
                    break
            rep.case((tag, json.dumps(h, sort_keys=True), variant), nontrivial=nontrivial(h))
            rep.replayed(1)
    return len(leaves)


def act_sig(rec, prefix, init):
    """stable signature of an action: name, operator and operand relation"""
    a = rec["a"]
    s = a
    if "op" in rec:
        s += ":" + rec["op"]
    if "f" in rec:
        s += ":" + rec["f"]
    if "side" in rec:
        s += ":" + rec["side"]
    if a in ("bin", "ibin", "setitem") and rec.get("i") == rec.get("j"):
        s += ":same-object"
    if a == "powi":
        s += ":%d" % rec["n"]
    if a == "sum":
        s += ":axis=%s" % ("None" if rec["axis"] == NONE else rec["axis"])
    if a in ("diag", "triu", "tril"):
        s += ":k=%d" % rec["k"]
    if a == "tile":
        s += ":reps=%s" % (rec["reps"],)
    if a == "cmp":
        s += ":" + rec["rel"] + (":scalar" if not rec["j"] else "")
    return s


def machine_check(rep, configs, pid, variants=(0,), simulate=None):
    """configs: list of dict(name=..., **cfg kwargs).  Runs TLC (M: invariants/properties + emission) and replays."""
    algopy = load_algopy()
    total = 0
    for c in configs:
        c = dict(c)
        name = c.pop("name")
        sim = c.pop("simulate", None)
        depth = c.pop("depth", None)
        module = c.get("module", "MC_UTPM")
        kw = {}
        if sim:
            kw = dict(simulate=sim, depth=depth or c.get("maxlen", 3) + 1, seed=rep.seed)
        module = c.pop("module", "MC_UTPM")
        res = run_tlc(module, cfg(**c), workers=16, timeout=3000, **kw)
        if res.violated and res.violated != "EmitState":
            raise Machinery("spec property %s violated in %s:\n%s" % (res.violated, name, res.out[-2000:]))
        tlc_ok(res, "MC_UTPM " + name)
        rep.add_tlc(res, name)
        if not res.records:
            raise Machinery("no behaviours from " + name)
        n = run_behaviours(rep, algopy, res.records, pid, name, variants=variants)
        total += n
        counts = {}
        for r in res.records:
            if r["h"]:
                e = r["h"][-1]
                k = e["a"] + (":" + e["op"] if "op" in e else "")
                counts[k] = counts.get(k, 0) + 1
        rep.parts[name]["action_counts"] = counts       # vacuity guard: every explored state is reached by exactly one last action
        if not counts:
            raise Machinery("vacuous configuration %s: no action was taken" % name)
        big = max(res.records, key=lambda r: len(r["h"]))
        rep.sample({"config": name, "behaviour": big["h"]}, maxn=5)
    return total


def self_test(rep):
    """binding self-test: a spec state with one corrupted value / one wrong cell must be rejected by compare()."""
    algopy = load_algopy()
    res = tlc_ok(run_tlc("MC_UTPM", cfg(2, 1, "PoolVec2", "ActsGet", maxlen=1), workers=4), "self-test")
    recs = {json.dumps(r["h"], sort_keys=True): r for r in res.records}
    init = recs["[]"]["o"]
    leaf = next(r for r in res.records if len(r["h"]) == 1)
    for mode in ("value", "alias"):
        rp = Replayer(algopy, init)
        rp.step(leaf["h"][0])
        exp = json.loads(json.dumps(leaf["o"]))
        if mode == "value":
            exp[0]["vals"][0] = [exp[0]["vals"][0][0] + exp[0]["vals"][0][1], exp[0]["vals"][0][1]]
        else:
            exp[-1]["buf"] = 77
        try:
            rp.compare(exp)
        except Mismatch:
            continue
        raise Machinery("self-test: corrupted %s not detected" % mode)


# ----------------------------------------------------------------------------- relational replays (C10, C11, C12)

def sub_init(init, Dp=None, p=None, zeroth=False):
    """initial pool restricted to the first Dp coefficients / to direction p / (zeroth) to plain arrays of coefficient 0"""
    out = []
    for o in init:
        if o["k"] != "U":
            out.append(dict(o)); continue
        shape = list(o["shape"])
        vals = numpy.arange(len(o["vals"])).reshape(shape)          # positions (the values stay as the spec printed them: real or complex)
        if Dp is not None:
            vals = vals[:Dp]
        if p is not None:
            vals = vals[:, p:p + 1]
        if zeroth:
            vals = vals[0, 0]
            k = "Z"
        else:
            k = "U"
        vals = numpy.asarray(vals)
        flat = [int(i) for i in vals.reshape(-1)]
        d = dict(o)
        d.update({"k": k, "shape": list(vals.shape), "cells": list(range(1, len(flat) + 1)), "vals": [o["vals"][i] for i in flat]})
        out.append(d)
    return out


class NumpyReplayer(Replayer):
    """the same behaviour executed by NumPy on zeroth coefficients (reference for C10)"""

    def step(self, rec):
        a = rec["a"]
        X = self.objs
        i = rec.get("i", 0) - 1; j = rec.get("j", 0) - 1
        res = None
        if a in ("bin", "bina"):
            res = OPS[rec["op"]](X[i], X[j]) if rec.get("side", "r") == "r" else OPS[rec["op"]](X[j], X[i])
        elif a == "bins":
            c = scalar_of(rec["c"], self.variant)
            res = OPS[rec["op"]](X[i], c) if rec["side"] == "r" else OPS[rec["op"]](c, X[i])
        elif a in ("ibin", "ibina"):
            X[i][...] = OPS[rec["op"]](X[i], X[j])
        elif a == "ibins":
            X[i][...] = OPS[rec["op"]](X[i], scalar_of(rec["c"], self.variant))
        elif a == "powi":
            res = X[i] ** float(rec["n"]) if rec["n"] < 0 else X[i] ** int(rec["n"])
        elif a == "unary":
            f = rec["f"]
            res = {"neg": lambda x: -x, "square": numpy.square, "reciprocal": lambda x: 1.0 / x, "clone": lambda x: x.copy(),
                   "zeros_like": numpy.zeros_like}[f](X[i])
        elif a == "getitem":
            res = X[i][py_index(rec["ix"])]
        elif a in ("setitem", "setitema"):
            X[i][py_index(rec["ix"])] = X[j]
        elif a == "setitems":
            X[i][py_index(rec["ix"])] = scalar_of(rec["c"], self.variant)
        elif a == "transpose":
            res = X[i].T
        elif a == "reshape":
            res = X[i].reshape(tuple(rec["es"]))
        elif a == "sum":
            ax = None if rec["axis"] == NONE else int(rec["axis"])
            res = numpy.sum(X[i], axis=ax)
        elif a == "cmp":
            return
        else:
            raise Machinery("unknown action " + a)
        if res is not None:
            self.objs.append(numpy.asarray(res))



def dirty_out_check(rep, algopy, names, seed):
    """class-level functions that take out=: a buffer holding other data (e.g. the result of an earlier call) must not change
    the value that is returned, whether the function writes into it or ignores it"""
    from algopy import UTPM
    rng = numpy.random.RandomState((seed + 17) % 2 ** 31)
    D, P = 3, 2
    A = UTPM(rng.randint(-3, 4, size=(D, P, 3, 3)).astype(float)); A.data[0] += 5 * numpy.eye(3)
    B = UTPM(rng.randint(-3, 4, size=(D, P, 3, 3)).astype(float)); B.data[0] = abs(B.data[0]) + 1 + 4 * numpy.eye(3)     # (no zero divisor base)
    v = UTPM(rng.randint(-3, 4, size=(D, P, 3)).astype(float)); w = UTPM(rng.randint(1, 4, size=(D, P, 3)).astype(float))
    calls = {"add": lambda o: UTPM.add(A, B, out=o), "sub": lambda o: UTPM.sub(A, B, out=o), "mul": lambda o: UTPM.mul(A, B, out=o),
             "div": lambda o: UTPM.div(A, B, out=o), "neg": lambda o: UTPM.neg(A, out=o),
             "dot": lambda o: UTPM.dot(A, B, out=o), "dot_mv": lambda o: UTPM.dot(A, v, out=o), "outer": lambda o: UTPM.outer(v, w, out=o),
             "diag": lambda o: UTPM.diag(v, out=o), "diag_k1": lambda o: UTPM.diag(v, k=1, out=o), "diag_extract": lambda o: UTPM.diag(A, out=o),
             "tril": lambda o: UTPM.tril(A, out=o), "triu": lambda o: UTPM.triu(A, k=1, out=o)}
    for nm in names:
        rep.case(("dirty-out", nm), nontrivial=True)
        try:
            ref = calls[nm](None)
            buf = UTPM(ref.data * 3.0 + 7.0)
            got = calls[nm](buf)
            if got.data.shape != ref.data.shape or not numpy.array_equal(got.data, ref.data):
                rep.violation("UTPM.%s with out= a buffer holding other data returns another value" % nm.split("_")[0], {"case": nm})
        except NotImplementedError:
            pass
        except Exception as ex:
            rep.violation("UTPM.%s with out= raises %s" % (nm.split("_")[0], type(ex).__name__), {"case": nm, "what": repr(ex)[-200:]})


def relational(rep, algopy, records, tag, mode, limit=None, seed=0):
    """mode 'dir': every multi-direction behaviour re-run on each single direction;
       mode 'trunc': re-run on inputs truncated to every D' < D;
       mode 'zeroth': NumPy on the zeroth coefficients of each direction (shape, len, size, ndim, values)."""
    by_h = {json.dumps(r["h"], sort_keys=True): r for r in records}
    init = by_h["[]"]["o"]
    hs = [r["h"] for r in records]
    prefixes = set()
    for h in hs:
        for n in range(len(h)):
            prefixes.add(json.dumps(h[:n], sort_keys=True))
    leaves = [h for h in hs if json.dumps(h, sort_keys=True) not in prefixes]
    if limit and len(leaves) > limit:
        import random
        random.Random(seed).shuffle(leaves)
        leaves = leaves[:limit]
    U0 = next(o for o in init if o["k"] == "U")
    D, P = U0["shape"][0], U0["shape"][1]
    for bi, h in enumerate(leaves):
        full = Replayer(algopy, init, variant=bi, slicewise=False)
        subs = []
        if mode == "dir":
            subs = [("direction %d" % p, dict(p=p), Replayer(algopy, sub_init(init, p=p), variant=bi, slicewise=False)) for p in range(P)]
        elif mode == "trunc":
            subs = [("truncated to D'=%d" % dp, dict(Dp=dp), Replayer(algopy, sub_init(init, Dp=dp), variant=bi, slicewise=False)) for dp in range(1, D)]
        elif mode == "zeroth":
            subs = [("numpy on zeroth coefficients of direction %d" % p, dict(p=p, zeroth=True), NumpyReplayer(algopy, sub_init(init, p=p, zeroth=True), variant=bi, slicewise=False)) for p in range(P)]
        bad = None
        for n, rec in enumerate(h):
            try:
                full.step(rec)
            except Exception as e:
                break           # the behaviour itself is checked by the exact replay, not here
            for name, kw, sub in subs:
                try:
                    sub.step(rec)
                except Exception as e:
                    bad = ("%s raises %s in the reduced run" % (act_sig(rec, h[:n], init), type(e).__name__), name, repr(e)[-200:]); break
                if len(sub.objs) != len(full.objs):
                    bad = (act_sig(rec, h[:n], init) + " object-count", name, ""); break
                for k in range(len(full.objs)):
                    fo, so = full.objs[k], sub.objs[k]
                    if not isinstance(fo, algopy.UTPM):
                        continue
                    fd = fo.data
                    if mode == "dir":
                        want = fd[:, kw["p"]:kw["p"] + 1]; got = so.data
                    elif mode == "trunc":
                        want = fd[:kw["Dp"]]; got = so.data
                    else:
                        want = fd[0, kw["p"]]; got = numpy.asarray(so)
                        # shape, len, size, ndim follow NumPy
                        if fo.shape != numpy.shape(got) or fo.ndim != numpy.ndim(got) or fo.size != numpy.size(got) or \
                                (numpy.ndim(got) > 0 and len(fo) != len(got)):
                            bad = (act_sig(rec, h[:n], init) + " shape/len/size/ndim", name,
                                   "object %d: UTPM shape %s ndim %s size %s, numpy %s" % (k + 1, fo.shape, fo.ndim, fo.size, numpy.shape(got))); break
                    if numpy.shape(want) != numpy.shape(got) or not numpy.allclose(want, got, rtol=1e-12, atol=1e-13):
                        bad = (act_sig(rec, h[:n], init) + " value", name, "object %d" % (k + 1)); break
                if bad:
                    break
            if bad:
                rep.violation("%s [%s]" % (bad[0], mode), {"behaviour": h[:n + 1], "reduced_run": bad[1], "what": bad[2], "spec": tag,
                                                          "initial_objects": init})
                break
        rep.case((tag, mode, json.dumps(h, sort_keys=True)), nontrivial=len(h) >= 1)
        rep.replayed(1)
    return len(leaves)


def relational_check(rep, configs, mode, limit=None):
    algopy = load_algopy()
    for c in configs:
        c = dict(c)
        name = c.pop("name")
        sim = c.pop("simulate", None); depth = c.pop("depth", None)
        kw = dict(simulate=sim, depth=depth, seed=rep.seed) if sim else {}
        module = c.pop("module", "MC_UTPM")
        res = run_tlc(module, cfg(**c), workers=16, timeout=1500, **kw)
        tlc_ok(res, module + " " + name)
        rep.add_tlc(res, name)
        n = relational(rep, algopy, res.records, name, mode, limit=limit, seed=rep.seed)
        big = max(res.records, key=lambda r: len(r["h"]))
        rep.sample({"config": name, "mode": mode, "behaviour": big["h"]}, maxn=4)
