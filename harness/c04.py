"""C04 Graph derivative drivers return the derivatives at the requested point.

Spec: Tracer!Drv - each of the eight drivers as seed construction + FwdFrom + SweepWith + slice on the persistent graph
state; reference RefDrv from the forward-mode derivative series carried in every reference cell (fresh execution).
M: DriverCorrect for all programs <= MaxInstr (incl. buffered ones where an overwritten cell had been read by a product)
recorded at (1,2) and evaluated at another point, in every history position.  R: every behaviour replayed for both
recording kinds (ndarray / UTPM): the real driver's return value must equal the exact rational derivative.
"""
from common import *
import tracer_replay as T


def run(rep, tier, seed):
    q = tier == "quick"
    mr = 1000 if q else None
    configs = [
        dict(name="drv_core", maxinstr=3, maxhist=1, ops="OpsDrv", points="NoPts", seeds="NoSeeds", drvx="XCat", drvv="VCat", drvw="WCat",
             rec_kinds=("U", "A", "V"), max_replay=mr),
        dict(name="drv_arith", maxinstr=3, maxhist=1, ops="OpsDrvA", points="NoPts", seeds="NoSeeds", rec_kinds=("U", "A", "V"), max_replay=mr),
        dict(name="drv_buffered", maxinstr=3, maxhist=1, ops="OpsDrvP", points="NoPts", seeds="NoSeeds", prefix="buffered",
             rec_kinds=("U", "A", "V"), max_replay=mr),
        dict(name="drv_dot_seta", maxinstr=3, maxhist=1, ops="OpsDrvC", points="NoPts", seeds="NoSeeds", rec_kinds=("U", "A", "V"), max_replay=mr),
        dict(name="drv_broadcast_assignment_prod", maxinstr=2 if q else 3, maxhist=1, ops="OpsDrvD", points="NoPts", seeds="NoSeeds", rec_kinds=("U", "A", "V"), max_replay=mr or 20000, timeout=1500),
        dict(name="drv_vanishing_intermediates", maxinstr=3, maxhist=1, ops="OpsDrvZ", points="NoPts", seeds="NoSeeds", drvx="XZero", drvv="VCat", drvw="WCat", max_replay=12000 if q else None),
        dict(name="drv_hist2_buffered", maxinstr=2, maxhist=2, ops="OpsDrvP", points="NoPts", seeds="NoSeeds", prefix="buffered",
             rec_kinds=("U", "A", "V"), max_replay=mr),
        dict(name="drv_hist2", maxinstr=2, maxhist=2, ops="OpsDrv", points="PtsOne", seeds="SeedsB", rec_kinds=("U",), max_replay=mr),
    ]
    if not q:
        configs += [
            dict(name="drv_arith2", maxinstr=3, maxhist=1, ops="OpsDrvB", points="NoPts", seeds="NoSeeds", drvx="XCat", rec_kinds=("U", "A", "V")),
            dict(name="drv_len4", maxinstr=4, maxhist=1, ops="OpsDrv", points="NoPts", seeds="NoSeeds", rec_kinds=("U", "A", "V"), max_replay=20000),
        ]
    T.tracer_check(rep, configs, "C04")
    T.jacobian_utpm_check(rep, seed)
    T.validate_recorded(rep, "C04", repo_tests=False)
    T.self_test(rep)
    return rep.finish("one case = (program, recording kind, driver call with arguments from the catalogue, at a point different from "
                      "the recording point); non-trivial = >= 2 instructions; distinct by (config, behaviour, recording kind)")
