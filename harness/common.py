"""Shared plumbing: loading /repo's algopy, running TLC, projections, findings, evidence."""
import os, sys, json, re, subprocess, tempfile, shutil, time, hashlib, math
from fractions import Fraction

VERIF = os.path.dirname(os.path.dirname(os.path.abspath(__file__)))
# where evidence/ and replays/ are written (the registered commands use /verif; mutant evaluation redirects it)
OUT = os.environ.get("VERIF_OUT", VERIF)
REPO = os.environ.get("ALGOPY_VERIF_REPO", "/repo")
SPEC = os.path.join(VERIF, "spec")
TLA_JAR = "/opt/veriftools/tla/tla2tools.jar"
CM_JAR = "/opt/veriftools/tla/CommunityModules-deps.jar"


class Machinery(Exception):
    """Failure of the verification machinery itself (exit 2), never a violation."""


def load_algopy():
    """Import algopy from REPO (never the installed copy in /venv)."""
    if "algopy" in sys.modules:
        return sys.modules["algopy"]
    import warnings
    warnings.filterwarnings("ignore")
    sys.path.insert(0, REPO)
    for k in [k for k in sys.modules if k == "mpmath" or k.startswith("mpmath.")]:
        del sys.modules[k]
    import algopy
    if not os.path.abspath(algopy.__file__).startswith(os.path.abspath(REPO) + os.sep):
        raise Machinery("algopy imported from %s, not from %s" % (algopy.__file__, REPO))
    return algopy


def load_mpmath():
    load_algopy()
    deps = os.path.join(VERIF, ".deps")
    if deps not in sys.path:
        sys.path.append(deps)
    try:
        import mpmath
    except ImportError:
        raise Machinery("mpmath missing: run MANIFEST.setup_cmd")
    return mpmath


# ----------------------------------------------------------------------------- TLC

class TLCResult:
    def __init__(self):
        self.rc = None; self.out = ""; self.generated = 0; self.distinct = 0
        self.violated = None; self.records = []; self.wall = 0.0; self.cmd = ""
        self.coverage = {}; self.error = None; self.depth = 0


def run_tlc(module, cfg, workers=16, simulate=None, depth=None, seed=None, timeout=3600,
            env=None, deque=False, parse_json=True, extra=None, coverage=False, keep_out=False):
    """Run TLC on spec/<module>.tla with the configuration text `cfg`.

    Returns a TLCResult. JSON records printed with PrintT(ToJson(..)) are collected in .records.
    """
    work = tempfile.mkdtemp(prefix="verif_tlc_")
    res = TLCResult()
    try:
        cfgp = os.path.join(work, module + ".cfg")
        with open(cfgp, "w") as f:
            f.write(cfg)
        cmd = ["java", "-XX:+UseParallelGC", "-Xmx" + os.environ.get("VERIF_TLC_XMX", "24g")]
        if deque:
            cmd.append("-Dtlc2.tool.queue.IStateQueue=StateDeque")
        cmd += ["-cp", TLA_JAR + ":" + CM_JAR, "tlc2.TLC", "-workers", str(workers),
                "-metadir", os.path.join(work, "meta"), "-noGenerateSpecTE", "-config", cfgp]
        if coverage:
            cmd += ["-coverage", "1"]
        if simulate is not None:
            cmd += ["-simulate", "num=%d" % max(1, -(-simulate // workers))]      # (TLC counts num per worker)
            if depth:
                cmd += ["-depth", str(depth)]
        if seed is not None:
            cmd += ["-seed", str(seed)]
        if extra:
            cmd += list(extra)
        cmd.append(os.path.join(SPEC, module + ".tla"))
        res.cmd = " ".join(cmd).replace(work, "$TMP")
        e = dict(os.environ)
        if env:
            e.update({k: str(v) for k, v in env.items()})
        t0 = time.time()
        try:
            p = subprocess.run(cmd, cwd=SPEC, env=e, stdout=subprocess.PIPE, stderr=subprocess.STDOUT,
                               timeout=timeout, text=True)
            res.rc = p.returncode; out = p.stdout
        except subprocess.TimeoutExpired as ex:
            subprocess.run(["pkill", "-f", work], check=False)
            res.rc = -9; out = (ex.stdout or b"").decode() if isinstance(ex.stdout, bytes) else (ex.stdout or "")
            res.error = "timeout"
        res.wall = time.time() - t0
        recs = []
        other = []
        for line in out.splitlines():
            if parse_json and line.startswith('"{') or parse_json and line.startswith('"['):
                try:
                    recs.append(json.loads(json.loads(line)))
                    continue
                except Exception:
                    pass
            other.append(line)
        res.records = recs
        res.out = "\n".join(other)
        m = re.search(r"(\d+) states generated, (\d+) distinct states found", res.out)
        if m:
            res.generated = int(m.group(1)); res.distinct = int(m.group(2))
        m = re.search(r"The depth of the complete state graph search is (\d+)", res.out)
        if m:
            res.depth = int(m.group(1))
        m = re.search(r"Invariant (\S+) is violated", res.out)
        if m:
            res.violated = m.group(1)
        m = re.search(r"(Action property|Temporal property|property) (\S+) (is|was) violated", res.out)
        if m and not res.violated:
            res.violated = m.group(2)
        if res.rc not in (0,) and res.violated is None and res.error is None:
            if "Assumption" in res.out and "is false" in res.out:
                res.violated = "ASSUME"
            elif "The postcondition" in res.out or "Postcondition" in res.out:
                res.violated = "POSTCONDITION"
            else:
                res.error = "tlc rc=%s" % res.rc
        if coverage:
            for m in re.finditer(r"<(\w+) line \d+, col \d+ to line \d+, col \d+ of module \w+>: (\d+):(\d+)", res.out):
                res.coverage[m.group(1)] = res.coverage.get(m.group(1), 0) + int(m.group(3))
        return res
    finally:
        shutil.rmtree(work, ignore_errors=True)


def tlc_ok(res, what):
    """Raise Machinery unless the TLC run completed without error/violation."""
    if res.error or res.violated:
        tail = "\n".join(res.out.splitlines()[-40:])
        raise Machinery("%s: TLC %s\n%s" % (what, res.error or ("violated " + res.violated), tail))
    return res


# ----------------------------------------------------------------------------- numbers

def to_frac(q):
    """[n,d] -> Fraction;   [[n,d],[n,d]] (complex instance of the spec) -> Fraction if the imaginary part is 0, else (re, im)"""
    if isinstance(q[0], (list, tuple)):
        re, im = Fraction(int(q[0][0]), int(q[0][1])), Fraction(int(q[1][0]), int(q[1][1]))
        return re if im == 0 else (re, im)
    return Fraction(int(q[0]), int(q[1]))


def to_num(q):
    """float or complex value of a spec scalar"""
    f = to_frac(q)
    return complex(float(f[0]), float(f[1])) if isinstance(f, tuple) else float(f)


def frac_of_float(v, maxden=1 << 20, rtol=1e-9):
    """Project a float on the rational grid; None when it is not within rtol of a small rational."""
    v = float(v)
    if not math.isfinite(v):
        return None
    q = Fraction(v).limit_denominator(maxden)
    if abs(v - float(q)) <= rtol * max(1.0, abs(v)):
        return q
    return None


def close(v, q, rtol=1e-9, atol=1e-11):
    """float/complex v equals exact Fraction (or pair of Fractions) q up to rounding"""
    if isinstance(q, tuple):
        v = complex(v)
        return close(v.real, q[0], rtol, atol) and close(v.imag, q[1], rtol, atol)
    if isinstance(v, complex):
        if abs(v.imag) > atol:
            return False
        v = v.real
    e = float(q)
    v = float(v)
    if not math.isfinite(v):
        return False
    return abs(v - e) <= atol + rtol * abs(e)


# ----------------------------------------------------------------------------- findings / violations

class Reporter:
    """Collects violations for one property; prints VIOLATION / KNOWN-FINDING lines; writes evidence."""

    def __init__(self, pid, tier, seed):
        self.pid = pid; self.tier = tier; self.seed = seed
        self.t0 = time.time()
        self.violations = []       # (signature, detail)
        self.known_hit = {}        # signature -> count
        self.findings = load_findings().get(pid, [])
        self.cov = {"evaluations": 0, "samples": [], "states": 0, "transitions": 0,
                    "traces_validated_against_impl": 0}
        self.nontrivial = set()
        self.assumptions = []
        self.tlc_cmds = []
        self.parts = {}
        shutil.rmtree(os.path.join(OUT, "replays", pid), ignore_errors=True)

    # -- coverage accounting
    def add_tlc(self, res, name):
        self.cov["states"] += res.distinct
        self.cov["transitions"] += res.generated
        self.tlc_cmds.append(res.cmd)
        self.parts[name] = {"distinct_states": res.distinct, "states_generated": res.generated,
                            "wall_s": round(res.wall, 2), "depth": res.depth}
        if res.coverage:
            self.parts[name]["action_coverage"] = res.coverage

    def case(self, key=None, nontrivial=True):
        self.cov["evaluations"] += 1
        if nontrivial and key is not None:
            self.nontrivial.add(hashlib.sha1(repr(key).encode()).hexdigest()[:16])

    def sample(self, s, maxn=4):
        if len(self.cov["samples"]) < maxn:
            self.cov["samples"].append(s)

    def replayed(self, n=1):
        self.cov["traces_validated_against_impl"] += n

    # -- violations
    def violation(self, signature, detail):
        """signature: short stable string naming (op, operand pattern, clause)."""
        for f in self.findings:
            if re.fullmatch(f["signature"], signature):
                self.known_hit.setdefault(f["signature"], [f, 0])[1] += 1
                return
        if len(self.violations) < 50:
            self.violations.append((signature, detail))
        else:
            self.violations.append((signature, None))

    def finish(self, rule, extra=None):
        wall = time.time() - self.t0
        for sig, (f, n) in self.known_hit.items():
            print("KNOWN-FINDING: property=%s %s (%d cases this run)" % (self.pid, f["what"], n))
        rc = 0
        if self.violations:
            rc = 1
            os.makedirs(os.path.join(OUT, "replays", self.pid), exist_ok=True)
            seen = set()
            for sig, detail in self.violations:
                if sig in seen or detail is None:
                    continue
                seen.add(sig)
                h = hashlib.sha1(sig.encode()).hexdigest()[:10]
                path = os.path.join(OUT, "replays", self.pid, h + ".json")
                with open(path, "w") as f:
                    json.dump({"property": self.pid, "signature": sig, "detail": detail}, f, indent=1, default=str)
                print("VIOLATION property=%s replay=%s  # %s" % (self.pid, path, sig))
        cov = dict(self.cov)
        cov["distinct_nontrivial"] = len(self.nontrivial)
        cov["rule"] = rule
        cov["tlc_runs"] = self.parts
        cov["tlc_cmds"] = self.tlc_cmds[:6]
        cov["known_findings_hit"] = {k: v[1] for k, v in self.known_hit.items()}
        if extra:
            cov.update(extra)
        ev = {"property_id": self.pid, "tier": self.tier, "seed": int(self.seed), "level": "model_checking",
              "coverage": cov, "assumptions": self.assumptions, "wall_s": round(wall, 2),
              "violations": len(self.violations)}
        os.makedirs(os.path.join(OUT, "evidence"), exist_ok=True)
        with open(os.path.join(OUT, "evidence", self.pid + ".json"), "w") as f:
            json.dump(ev, f, indent=1, default=str)
        print("%s %s: %d evaluations, %d distinct non-trivial, %d spec states, %d replayed/validated, %d violations, %.1fs"
              % (self.pid, self.tier, cov["evaluations"], cov["distinct_nontrivial"], cov["states"],
                 cov["traces_validated_against_impl"], len(self.violations), wall))
        return rc


_FINDINGS = None


def load_findings():
    global _FINDINGS
    if _FINDINGS is None:
        p = os.path.join(VERIF, "known_findings.json")
        d = {}
        if os.path.exists(p):
            for f in json.load(open(p)).get("findings", []):
                d.setdefault(f["property"], []).append(f)
        _FINDINGS = d
    return _FINDINGS
