"""C09 Forward-mode derivative drivers are exact.

Spec: FwdDrivers.tla - seeds as sets of directions, extraction by polarisation identities / exact interpolation,
propagation in the TPS algebra; reference: exact partial derivatives of monomials.  M: for every monomial x^alpha of
degree <= MaxDeg in N <= MaxN variables, every integer point and direction of the catalogue: extract o propagate o init
equals the analytic derivative (Jacobian, J v, Hessian, H v, all d-th order partials / multi-index factorial).
R: the same monomials (and integer combinations of them, and exp / sin of them by the chain rule) are evaluated through
the real UTPM.init_* -> UTPM arithmetic -> UTPM.extract_*; results compared with the spec's integers; the direction
sets produced by init_hessian / init_hess_vec must be the spec's sets.
"""
import itertools, json
import numpy
from common import *

CFG = """CONSTANTS MaxN = %d
 MaxDeg = %d
 MaxTensor = %d
 Emit = TRUE
 PtVals <- %s
 VVals <- PW
INIT Init
NEXT Next
INVARIANT JacobianOK
INVARIANT JacVecOK
INVARIANT HessianOK
INVARIANT HessVecOK
INVARIANT TensorOK
INVARIANT SeedCounts
INVARIANT EmitState
CHECK_DEADLOCK FALSE
"""


SESSION_CFG = """CONSTANTS Progs <- %s
 Pts <- %s
 Vs <- VsAll
 Kinds <- %s
 Ds <- %s
 MaxPend = %d
 MaxSteps = %d
 Emit = TRUE
INIT Init
NEXT Next
INVARIANT TypeOK
INVARIANT DriversExact
INVARIANT ExtractIndependent
INVARIANT EmitState
PROPERTY PendStable
CHECK_DEADLOCK FALSE
"""


def session_program(algopy, prog):
    """the vector-/matrix-valued polynomial program of the catalogue entry, written with algopy operations"""
    mons, shape = prog["mon"], tuple(prog["shape"])

    def f(x):
        comps = []
        for alpha in mons:
            y = None
            for i, a in enumerate(alpha):
                for _ in range(a):
                    y = x[i] if y is None else y * x[i]
            comps.append(y)
        if shape == ():
            return comps[0]
        out = algopy.zeros(len(comps), dtype=x)
        for m, c in enumerate(comps):
            out[m] = c
        return out.reshape(shape)
    return f


def session_replay(rep, algopy, hist, mutate=None):
    """one behaviour of DriverSession through the real drivers; returns the list of mismatches"""
    from algopy import UTPM
    import algopy.exact_interpolation as ei
    pend, bad = [], []
    for k, st in enumerate(hist):
        e = st["e"]
        N = len(e["pt"]); x = numpy.array(e["pt"], dtype=float); v = numpy.array(e["v"], dtype=float)
        shape = tuple(e["prog"]["shape"]); kind = e["kind"]
        if st["a"] == "seed":
            f = session_program(algopy, e["prog"])
            xs = {"jacobian": lambda: UTPM.init_jacobian(x), "jac_vec": lambda: UTPM.init_jac_vec(x, v), "hessian": lambda: UTPM.init_hessian(x),
                  "hess_vec": lambda: UTPM.init_hess_vec(x, v), "tensor": lambda: UTPM.init_tensor(e["d"], x)}[kind]()
            pend.append(f(xs))
            continue
        y = pend.pop(st["i"] - 1)
        exp = st["exp"]
        if kind == "jacobian":
            got = UTPM.extract_jacobian(y); want = numpy.array(exp, dtype=float).reshape(shape + (N,))
        elif kind == "jac_vec":
            got = UTPM.extract_jac_vec(y); want = numpy.array(exp, dtype=float).reshape(shape)
        elif kind == "hessian":
            got = UTPM.extract_hessian(N, y); want = numpy.array(exp, dtype=float)
        elif kind == "hess_vec":
            got = UTPM.extract_hess_vec(N, y); want = numpy.array(exp, dtype=float)
        else:
            mi = [tuple(int(a) for a in row) for row in ei.generate_multi_indices(N, e["d"])]
            got = UTPM.extract_tensor(N, y, as_full_matrix=False)
            tens = [{parse_key(kk): val for kk, val in t.items()} for t in exp]
            want = numpy.array([[t[m] for t in tens] for m in mi], dtype=float).reshape((len(mi),) + shape)
        got = numpy.asarray(got, dtype=float)
        if mutate:
            want = want + mutate
        if got.shape != want.shape:
            bad.append(("extract_%s: shape" % kind, {"step": k, "got_shape": list(got.shape), "expected_shape": list(want.shape)}))
        elif not numpy.allclose(got, want, rtol=1e-10, atol=1e-9):
            bad.append(("extract_%s%s" % (kind, " after other seeds / extractions" if k > 1 else ""), {"step": k, "got": got.tolist(), "expected": want.tolist()}))
    return bad


def session_check(rep, algopy, tier):
    q = tier == "quick"
    runs = [("ProgsQuick", "PtsQuick", "KindsAll", "D123", 2, 4)] if q else \
           [("ProgsAll", "PtsAll", "KindsAll", "D123", 2, 4), ("ProgsQuick", "PtsQuick", "KindsTensor", "D123", 3, 6)]
    first = None
    for r_ in runs:
        res = tlc_ok(run_tlc("MC_DriverSession", SESSION_CFG % r_, workers=16, timeout=2400), "MC_DriverSession")
        rep.add_tlc(res, "MC_DriverSession %s" % (r_,))
        if not res.records:
            raise Machinery("DriverSession: no behaviours")
        acts = set()
        for hist in res.records:
            first = first or hist
            inter = any(hist[k]["a"] == "seed" and k > 0 for k in range(len(hist)))
            rep.case(("session", json.dumps(hist, sort_keys=True)), nontrivial=inter)
            acts.update((st["a"], st["e"]["kind"]) for st in hist)
            try:
                for sig, det in session_replay(rep, algopy, hist):
                    rep.violation(sig, dict(det, behaviour=[(st["a"], st["e"]["kind"], st["e"]["pt"], st["e"]["d"], st["i"]) for st in hist]))
            except Exception as ex:
                rep.violation("driver session raises " + type(ex).__name__, {"what": repr(ex)[-300:], "behaviour": [(st["a"], st["e"]["kind"], st["e"]["pt"], st["e"]["d"], st["i"]) for st in hist]})
            rep.replayed(1)
        missing = {(a, k) for a in ("seed", "extract") for k in (("tensor",) if r_[2] == "KindsTensor" else ("jacobian", "jac_vec", "hessian", "hess_vec", "tensor"))} - acts
        if missing:
            raise Machinery("DriverSession: actions never taken: %s" % sorted(missing))
    if not session_replay(rep, algopy, first, mutate=1.0):
        raise Machinery("self-test: corrupted session expectation not detected")


def parse_key(k):
    return tuple(int(x) for x in k.strip("<>").split(","))


def run(rep, tier, seed):
    algopy = load_algopy()
    from algopy import UTPM
    import algopy.exact_interpolation as ei
    q = tier == "quick"
    recs = []
    # (N <= 4 with degree <= 3 and tensors of order <= 2; N <= 3 with degree <= 4 and tensors of order <= 3: the full product
    #  N <= 4, degree <= 4, order <= 3 does not finish within 40 minutes)
    for bound in ([(3, 3, 2, "PS")] if q else [(4, 3, 2, "PS"), (3, 4, 3, "PS")]):
        res = tlc_ok(run_tlc("MC_FwdDrivers", CFG % bound, workers=16, timeout=2400), "MC_FwdDrivers %s" % (bound,))
        rep.add_tlc(res, "MC_FwdDrivers_N%d_deg%d_order%d" % bound[:3])
        recs += res.records
    if not recs:
        raise Machinery("no instances")
    stride = max(1, len(recs) // 6000)
    by = {}
    for r in recs:
        by.setdefault((len(r["alpha"]), tuple(r["pt"]), tuple(r["v"])), []).append(r)

    def mono(alpha, variant):
        def f(x):
            y = None
            for i, a in enumerate(alpha):
                for _ in range(a) if variant == 0 else ([0] if a else []):
                    t = x[i] if variant == 0 else x[i] ** a
                    y = t if y is None else y * t
            return y
        return f

    def check(sig, got, exp, detail):
        got = numpy.asarray(got, dtype=float); exp = numpy.asarray(exp, dtype=float)
        if got.shape != exp.shape:
            rep.violation(sig + " shape", dict(detail, got_shape=list(got.shape), expected_shape=list(exp.shape))); return
        if not numpy.allclose(got, exp, rtol=1e-10, atol=1e-9):
            rep.violation(sig, dict(detail, got=got.tolist(), expected=exp.tolist()))

    cnt = [0]

    def run_case(f, N, pt, v, jac, hess, tensors, tag, dtypes=(float, int)):
        for dt in dtypes:
            x = numpy.array(pt, dtype=dt)
            vv = numpy.array(v, dtype=dt)
            d = {"tag": tag, "pt": pt, "v": v, "dtype": dt.__name__}
            try:
                check("jacobian", UTPM.extract_jacobian(f(UTPM.init_jacobian(x))), jac, d)
                check("jac_vec", UTPM.extract_jac_vec(f(UTPM.init_jac_vec(x, vv))), numpy.dot(jac, v), d)
                xh = UTPM.init_hessian(x)
                check("hessian", UTPM.extract_hessian(N, f(xh)), hess, d)
                check("hess_vec", UTPM.extract_hess_vec(N, f(UTPM.init_hess_vec(x, vv))), numpy.dot(hess, v), d)
                for dd, tens in tensors.items():
                    if dt is int or (q and cnt[0] % 3 and dd < max(tensors)):
                        continue        # (quick tier: the lower tensor orders for every third case - generate_Gamma_and_rays dominates the run time)
                    mi = [tuple(int(a) for a in row) for row in ei.generate_multi_indices(N, dd)]
                    got = UTPM.extract_tensor(N, f(UTPM.init_tensor(dd, x)), as_full_matrix=False)
                    check("tensor d=%d" % dd, got, [tens[m] for m in mi], d)
                    if dd == 2:
                        check("tensor d=2 full matrix", UTPM.extract_tensor(N, f(UTPM.init_tensor(2, x))), hess, d)
                cnt[0] += 1
                if dt is int and cnt[0] % 6 == 0:
                    # an integer-typed point with a non-integer direction / a non-polynomial function must not truncate anything
                    vh = numpy.array(v, dtype=float) / 2
                    check("jac_vec (int point, fractional direction)", UTPM.extract_jac_vec(f(UTPM.init_jac_vec(x, vh))), numpy.dot(jac, vh), d)
                    check("hess_vec (int point, fractional direction)", UTPM.extract_hess_vec(N, f(UTPM.init_hess_vec(x, vh))), numpy.dot(hess, vh), d)
                    g = lambda z: algopy.exp(0.125 * f(z)) + (z[0] + 7) / (z[0] * z[0] + 3)
                    xf = x.astype(float)
                    for nm, call in (("jacobian", lambda xx: UTPM.extract_jacobian(g(UTPM.init_jacobian(xx)))),
                                     ("hessian", lambda xx: UTPM.extract_hessian(N, g(UTPM.init_hessian(xx)))),
                                     ("tensor d=2", lambda xx: UTPM.extract_tensor(N, g(UTPM.init_tensor(2, xx)), as_full_matrix=False))):
                        try:
                            a_, b_ = numpy.asarray(call(x), dtype=float), numpy.asarray(call(xf), dtype=float)
                        except Exception as ex:
                            rep.violation("%s of a smooth function at an integer-typed point raises %s" % (nm, type(ex).__name__), dict(d, what=repr(ex)[-200:])); continue
                        if a_.shape != b_.shape or not numpy.allclose(a_, b_, rtol=1e-10, atol=1e-12):
                            rep.violation("%s of a smooth function: integer-typed point differs from the same point as float" % nm, dict(d, got=a_.tolist(), expected=b_.tolist()))
            except Exception as ex:
                rep.violation("forward driver raises " + type(ex).__name__, dict(d, what=repr(ex)[-300:]))

    for (N, pt, v), group in sorted(by.items()):
        # seeds as sets
        x = numpy.array(pt, dtype=float)
        hs = {tuple(int(a) for a in row) for row in UTPM.init_hessian(x).data[1]}
        want = {parse_key(k) if isinstance(k, str) else tuple(k) for k in group[0]["hseeds"]}
        if hs != want or UTPM.init_hessian(x).data.shape[1] != len(want):
            rep.violation("init_hessian directions", {"N": N, "got": sorted(hs), "expected": sorted(want)})
        hv = {tuple(int(a) for a in row) for row in UTPM.init_hess_vec(x, numpy.array(v, dtype=float)).data[1]}
        wantv = {tuple(k) for k in group[0]["hvseeds"]}
        if hv != wantv:
            rep.violation("init_hess_vec directions", {"N": N, "v": v, "got": sorted(hv), "expected": sorted(wantv)})
        for gi, r in enumerate(group):
            if gi % stride:
                continue            # (thorough: M covers every instance, R replays a budget of about 6000 spread evenly)
            alpha = r["alpha"]
            jac = numpy.array(r["jac"], dtype=float)
            hess = numpy.array(r["hess"], dtype=float)
            tensors = {dd + 1: {parse_key(k): val for k, val in t.items()} for dd, t in enumerate(r["tensor"])}
            rep.case((N, pt, v, tuple(alpha)), nontrivial=sum(alpha) >= 2)
            run_case(mono(alpha, gi % 2), N, pt, v, jac, hess, tensors, "monomial %s" % alpha)
            rep.replayed(1)
        # integer combinations (linearity) and smooth outer functions (chain rule on the exact partials)
        if len(group) >= 2:
            a, b = group[0], group[-1]
            fa, fb = mono(a["alpha"], 0), mono(b["alpha"], 1)
            ja, jb = numpy.array(a["jac"], float), numpy.array(b["jac"], float)
            ha, hb = numpy.array(a["hess"], float), numpy.array(b["hess"], float)
            ta = {dd + 1: {parse_key(k): 3 * val - 2 * b["tensor"][dd][k] for k, val in t.items()} for dd, t in enumerate(a["tensor"])}
            run_case(lambda x: 3 * fa(x) - fb(x) * 2, N, pt, v, 3 * ja - 2 * jb, 3 * ha - 2 * hb, ta,
                     "3*x^%s - 2*x^%s" % (a["alpha"], b["alpha"]))
            rep.case((N, pt, v, "comb"), nontrivial=True)
            m0 = float(numpy.prod([p ** e for p, e in zip(pt, b["alpha"])]))
            s = 0.125
            g, c = numpy.exp(s * m0), numpy.cos(s * m0)
            run_case(lambda x: algopy.exp(s * fb(x)) + algopy.sin(s * fb(x)), N, pt, v,
                     (g + c) * s * jb, (g - numpy.sin(s * m0)) * s * s * numpy.outer(jb, jb) + (g + c) * s * hb, {},
                     "exp+sin of x^%s" % b["alpha"], dtypes=(float,))
            rep.case((N, pt, v, "smooth"), nontrivial=True)
    # matrix-valued programs: J v is coefficient 1 of the propagated curve x + t v (exact by C02/C07)
    rng = numpy.random.RandomState(seed % 2 ** 31)
    for shp, F in (((2, 3), lambda X: algopy.dot(algopy.dot(X, X.T), X)), ((3, 3), lambda X: algopy.dot(X, X)), ((2, 2), lambda X: algopy.inv(X + 3 * numpy.eye(2)))):
        X0 = rng.randint(-2, 3, size=shp).astype(float); V0 = rng.randint(-2, 3, size=shp).astype(float)
        rep.case(("jac_vec matrix", shp), nontrivial=True)
        try:
            y = F(UTPM.init_jac_vec(X0, V0))
            got = numpy.asarray(UTPM.extract_jac_vec(y))
            if got.shape != y.data[1, 0].shape or not numpy.allclose(got, y.data[1, 0], rtol=1e-12, atol=1e-12):
                rep.violation("extract_jac_vec of a matrix-valued function", {"input_shape": shp, "got_shape": list(got.shape), "expected_shape": list(y.data[1, 0].shape)})
        except Exception as ex:
            rep.violation("jac_vec of a matrix-valued function raises " + type(ex).__name__, {"what": repr(ex)[-200:]})
    # interleaved use: a second init_tensor before the first result is extracted must not matter
    for (N1, d1, N2, d2) in ((1, 2, 1, 3), (3, 2, 2, 5), (2, 2, 3, 1), (2, 3, 2, 2)):
        f = lambda x: algopy.exp(0.25 * algopy.sum(x * x)) + algopy.prod(x + 1.0)
        x1 = numpy.arange(1, N1 + 1) * 0.5; x2 = numpy.arange(1, N2 + 1) * 0.25
        rep.case(("tensor interleaved", N1, d1, N2, d2), nontrivial=True)
        try:
            ref = UTPM.extract_tensor(N1, f(UTPM.init_tensor(d1, x1)), as_full_matrix=False)
            y1 = f(UTPM.init_tensor(d1, x1))
            y2 = f(UTPM.init_tensor(d2, x2))
            got = UTPM.extract_tensor(N1, y1, as_full_matrix=False)
            if not numpy.allclose(got, ref, rtol=1e-12, atol=1e-12):
                rep.violation("extract_tensor depends on a later init_tensor call", {"first": [N1, d1], "second": [N2, d2]})
        except Exception as ex:
            rep.violation("interleaved tensor drivers raise " + type(ex).__name__, {"what": repr(ex)[-200:]})
    # integer-typed points of every width
    for dt in (numpy.int32, numpy.int16, numpy.uint8, numpy.int64):
        g = lambda z: algopy.exp(0.125 * z[0] * z[1]) / (z[1] + 1.0) + z[0] / z[1] + algopy.sqrt(z[0])
        xi = numpy.array([2, 3], dtype=dt); xf = xi.astype(float)
        rep.case(("int dtype", dt.__name__), nontrivial=True)
        for nm, call in (("jacobian", lambda xx: UTPM.extract_jacobian(g(UTPM.init_jacobian(xx)))),
                         ("jac_vec", lambda xx: UTPM.extract_jac_vec(g(UTPM.init_jac_vec(xx, numpy.array([0.5, -1.5]))))),
                         ("hessian", lambda xx: UTPM.extract_hessian(2, g(UTPM.init_hessian(xx)))),
                         ("hess_vec", lambda xx: UTPM.extract_hess_vec(2, g(UTPM.init_hess_vec(xx, numpy.array([0.5, -1.5]))))),
                         ("tensor d=3", lambda xx: UTPM.extract_tensor(2, g(UTPM.init_tensor(3, xx)), as_full_matrix=False))):
            try:
                a_, b_ = numpy.asarray(call(xi), dtype=float), numpy.asarray(call(xf), dtype=float)
                if a_.shape != b_.shape or not numpy.allclose(a_, b_, rtol=1e-10, atol=1e-12):
                    rep.violation("%s at a point of dtype %s differs from the same point as float64" % (nm, dt.__name__), {"got": a_.tolist(), "expected": b_.tolist()})
            except Exception as ex:
                rep.violation("%s at a point of dtype %s raises %s" % (nm, dt.__name__, type(ex).__name__), {"what": repr(ex)[-200:]})
    session_check(rep, algopy, tier)
    rep.sample({k: recs[len(recs) // 2][k] for k in ("alpha", "pt", "v", "jac", "hess")})
    # binding self-test
    r = next(r for r in recs if sum(r["alpha"]) >= 2)
    x = numpy.array(r["pt"], dtype=float)
    got = UTPM.extract_hessian(len(x), mono(r["alpha"], 0)(UTPM.init_hessian(x)))
    if numpy.allclose(got, numpy.array(r["hess"], float) + numpy.eye(len(x)), rtol=1e-10, atol=1e-9):
        raise Machinery("self-test: corrupted Hessian not detected")
    return rep.finish("one case = (monomial x^alpha, integer point, direction) through all five forward drivers for float and int points; plus "
                      "integer combinations and exp/sin compositions; non-trivial = degree >= 2", {"exhaustive": True})
