"""C05 Replaying a recorded graph reproduces the program.

Spec: Tracer (recording: one node appended per executed operation while recording is on - RecordOnce; views and in-place
writes on an explicit heap; re-evaluation FwdFrom from new inputs of kind UTPM(D,P) / ndarray).  M: RecordOnce (action
property), ReplayIsProgram, ForwardValuesStable for every program <= MaxInstr instructions and every call sequence.
R: each behaviour is executed through real Function nodes: after EVERY recorded instruction the node's value must equal
the spec's and cg.functionList must be exactly the recorded nodes (ID = position, operands earlier, nothing while off);
every pushforward result must equal the spec's value = fresh direct execution of the program on those inputs.
"""
from common import *
import tracer_replay as T


def run(rep, tier, seed):
    q = tier == "quick"
    mr = 1000 if q else None
    configs = [
        dict(name="complex_data", module="MC_CTracer", maxinstr=2, maxhist=2, ops="OpsA1", points="PtsCx", seeds="NoSeeds", rec_kinds=("U", "A"), max_replay=mr),
        dict(name="complex_data_buffered", module="MC_CTracer", maxinstr=2, maxhist=2, ops="OpsRevP", points="PtsCx", seeds="NoSeeds", prefix="buffered", rec_kinds=("U", "A"), max_replay=mr),
        dict(name="two_independents", maxinstr=2, maxhist=2, ops="OpsTwo", points="PtsTwo", seeds="NoSeeds", prefix="two", NI=2, rec_kinds=("U", "A", "V"), max_replay=mr),
        dict(name="core_fwd", maxinstr=3, maxhist=2, ops="OpsRec", points="PtsP1", seeds="NoSeeds", rec_kinds=("U", "A", "V"), max_replay=mr),
        dict(name="toggle", maxinstr=3, maxhist=1, ops="OpsToggle", points="PtsP1small", seeds="NoSeeds", rec_kinds=("U", "A", "V"), max_replay=mr),
        dict(name="other_while_recording", maxinstr=3, maxhist=1, ops="OpsOtherRec", points="PtsP1small", seeds="NoSeeds", rec_kinds=("U", "A", "V"), max_replay=mr),
        dict(name="views", maxinstr=3, maxhist=2, ops="OpsA4", points="PtsP1small", seeds="NoSeeds", rec_kinds=("U", "A", "V"), max_replay=mr),
        dict(name="prod_square_reciprocal", maxinstr=3, maxhist=2, ops="OpsB1", points="PtsP1small", seeds="NoSeeds", rec_kinds=("U", "A", "V"), max_replay=mr),
        dict(name="broadcast_assignment", maxinstr=3, maxhist=2, ops="OpsB2", points="PtsP1small", seeds="NoSeeds", rec_kinds=("U", "A", "V"), max_replay=mr),
        dict(name="P2", P=2, maxinstr=2, maxhist=2, ops="OpsCore", points="PtsP2", seeds="NoSeeds", max_replay=mr),
    ]
    if not q:
        configs += [
            dict(name="arith1", maxinstr=3, maxhist=2, ops="OpsA1", points="PtsP1small", seeds="NoSeeds", rec_kinds=("U", "A", "V")),
            dict(name="arith2", maxinstr=3, maxhist=2, ops="OpsA2", points="PtsP1small", seeds="NoSeeds", rec_kinds=("U", "A", "V")),
            dict(name="arith3", maxinstr=3, maxhist=2, ops="OpsA3", points="PtsP1small", seeds="NoSeeds", rec_kinds=("U", "A", "V")),
            dict(name="core_len4", maxinstr=4, maxhist=1, ops="OpsCore", points="PtsP1small", seeds="NoSeeds", rec_kinds=("U", "A", "V"), max_replay=20000),
        ]
    T.tracer_check(rep, configs, "C05")
    T.full_api_replays(rep, seed, n=300 if q else 1500)
    T.validate_recorded(rep, "C05", repo_tests=True)
    T.self_test(rep)
    return rep.finish("one case = (program recorded instruction by instruction, sequence of re-evaluations with inputs of kind "
                      "ndarray / UTPM(D,P), kind used while recording); non-trivial = >= 2 instructions and >= 1 call; "
                      "distinct by (config, behaviour, recording kind)")
