"""C01 Elementary functions return the Taylor coefficients of f(x(t)).

M : MC_TPS - ring laws, Horner, ODE theorem d/dt f(x) = f'(x) x', C-matrix theorem, truncation theorem,
    closed forms (exhaustive over small integer series).
R : Gen_TPS enumerates every coefficient pattern x_1..x_{D-1} and prints the spec's integer C-matrix
    C[d][k] = [t^d](x-x_0)^k.  The harness contracts it with F_k = f^(k)(x_0)/k! (mpmath, 40 digits - an
    implementation sharing nothing with algopy or SciPy kernels; closed forms where rational) and compares every
    coefficient returned by algopy, for every function, entry point, P, shape; complex data through the
    homogeneity C(c h)[d][k] = c^k C(h)[d][k].
"""
import itertools, json, random
import inspect
import numpy
from common import *

GEN_CFG = """CONSTANTS D = %d
 Vals <- %s
 Mode = "%s"
 MaxNonZero = %d
INIT Init
NEXT Next
INVARIANT Emit
CHECK_DEADLOCK FALSE
"""
MC_CFG = """CONSTANTS D = %d
 Vals <- %s
 Emit = FALSE
 MaxPow = 3
INIT Init
NEXT Next
INVARIANT RingLaws
INVARIANT DivLaw
INVARIANT ConstLaw
INVARIANT PowLaw
INVARIANT Horner
INVARIANT ODE
INVARIANT CMat
INVARIANT TruncLaw
INVARIANT ClosedForms
INVARIANT AdjMul
CHECK_DEADLOCK FALSE
"""

_FCACHE = {}


def taylor_F(key, mpf, x0, n):
    """F_k = f^(k)(x0)/k!, k = 0..n-1 as python complex/float via mpmath (cached)."""
    mp = load_mpmath()
    ck = (key, complex(x0), n)
    if ck not in _FCACHE:
        mp.mp.dps = 40
        z = mp.mpc(x0) if isinstance(x0, complex) else mp.mpf(x0)
        co = mp.taylor(mpf, z, n - 1)
        if isinstance(x0, complex):
            _FCACHE[ck] = [complex(c) for c in co]
        else:
            _FCACHE[ck] = [float(mp.re(c)) for c in co]
    return _FCACHE[ck]


def catalogue():
    """name -> (list of (entry name, callable on UTPM), mpmath function, real base points, complex base points)"""
    algopy = load_algopy()
    mp = load_mpmath()
    S = algopy.special
    sq = numpy.sqrt
    cat = []

    def add(name, entries, mpf, real_pts, cplx_pts=()):
        cat.append(dict(name=name, entries=entries, mpf=mpf, real=list(real_pts), cplx=list(cplx_pts)))

    def std(name, mpf, real_pts, cplx_pts=(), np_too=True):
        e = [("algopy." + name, getattr(algopy, name))]
        if np_too:
            e.append(("numpy." + name, getattr(numpy, name)))
        if hasattr(algopy.UTPM, name):           # the method form x.f() and the class-level form UTPM.f(x)
            if not isinstance(inspect.getattr_static(algopy.UTPM, name), classmethod):
                e.append(("x.%s()" % name, lambda x, name=name: getattr(x, name)()))
            e.append(("UTPM.%s(x)" % name, lambda x, name=name: getattr(algopy.UTPM, name)(x)))
        pair = {"sin": ("sincos", 0), "cos": ("sincos", 1), "sinh": ("sinhcosh", 0), "cosh": ("sinhcosh", 1), "tan": ("tansec2", 0)}.get(name)
        if pair:                                 # the methods that return two functions at once
            e.append(("x.%s()[%d]" % pair, lambda x, pair=pair: getattr(x, pair[0])()[pair[1]]))
        add(name, e, mpf, real_pts, cplx_pts)

    C = [0.5 + 0.25j, -0.75 + 1.5j, 0.3 + 2.5j, -1.25 - 4.0j]      # incl. imaginary parts beyond pi/2 and pi
    std("exp", mp.exp, [0.0, -1.25, 0.75, 2.0], C)
    std("expm1", mp.expm1, [1e-3, -0.5, 1.5, 1.5e-13, -2e-15], C)
    std("log", mp.log, [0.5, 1.0, 3.0], C)
    std("log1p", mp.log1p, [-0.5, 1e-3, 2.0, 1.5e-13, -2e-15], C)
    std("sqrt", mp.sqrt, [0.25, 1.0, 2.0, 9.0], C)
    std("sin", mp.sin, [0.0, 0.7, -2.5], C)
    std("cos", mp.cos, [0.0, 0.7, -2.5], C)
    std("tan", mp.tan, [0.0, 0.6, -1.1], C)
    std("arcsin", mp.asin, [0.0, 0.6, -0.3], [0.25 + 0.5j])
    std("arccos", mp.acos, [0.0, 0.6, -0.3], [0.25 + 0.5j])
    std("arctan", mp.atan, [0.0, 0.75, -2.0], [0.25 + 0.5j])
    std("sinh", mp.sinh, [0.0, 0.5, -1.5, 4.0], C)
    std("cosh", mp.cosh, [0.0, 0.5, -1.5, 4.0], C)
    std("tanh", mp.tanh, [0.0, 0.5, -1.5], C)
    std("reciprocal", lambda z: 1 / z, [0.5, -2.0, 4.0], C)
    std("square", lambda z: z * z, [0.0, 0.5, -3.0], C)
    std("negative", lambda z: -z, [0.0, 1.5], C)
    for r in (2, 3, -1, -2, 0, 1, 4, 5, 6, 8, -3, 11):
        add("pow_int(%d)" % r, [("x**%d" % r, lambda x, r=r: x ** r), ("algopy.pow", lambda x, r=r: algopy.pow(x, r))],
            lambda z, r=r: z ** r, [0.5, -2.0, 3.0] + ([0.0] if r >= 0 else []), C)
    for r in (0.5, -1.5, 2.5, numpy.float64(1.25)):
        add("pow_real(%s)" % r, [("x**%s" % r, lambda x, r=r: x ** r)], lambda z, r=r: z ** float(r), [0.5, 2.0, 4.0], C)
    for r in (2, 0.5, numpy.float64(3.0)):
        add("rpow(%s)" % r, [("%s**x" % r, lambda x, r=r: r ** x)], lambda z, r=r: mp.mpf(float(r)) ** z,
            [0.0, 1.5, -2.0], C)
    add("erf", [("special.erf", S.erf)], mp.erf, [0.0, 0.5, -1.25], C)
    add("erfi", [("special.erfi", S.erfi)], mp.erfi, [0.0, 0.5, -1.25], C)
    add("dawsn", [("special.dawsn", S.dawsn)],
        lambda z: mp.sqrt(mp.pi) / 2 * mp.exp(-z * z) * mp.erfi(z), [0.0, 0.5, -1.25, 2.0], [0.5 + 0.25j])
    add("logit", [("special.logit", S.logit)], lambda z: mp.log(z / (1 - z)), [0.25, 0.5, 0.9])
    add("expit", [("special.expit", S.expit)], lambda z: 1 / (1 + mp.exp(-z)), [0.0, 1.5, -2.0])
    add("gammaln", [("special.gammaln", S.gammaln)], mp.loggamma, [0.5, 1.0, 3.25])
    add("psi", [("special.psi", S.psi)], lambda z: mp.psi(0, z), [0.5, 1.0, 3.25])
    for m in (1, 2):
        add("polygamma(%d)" % m, [("special.polygamma", lambda x, m=m: S.polygamma(m, x))],
            lambda z, m=m: mp.psi(m, z), [0.5, 1.5, 3.25])
    for (a, b) in ((1.0, 1.5), (0.5, 2.25)):
        add("hyperu(%s,%s)" % (a, b), [("special.hyperu", lambda x, a=a, b=b: S.hyperu(a, b, x))],
            lambda z, a=a, b=b: mp.hyperu(a, b, z), [0.5, 1.0, 2.5])
    return cat


def piecewise_catalogue():
    """functions that are piecewise linear/constant: exact expectation away from kinks (no mpmath)."""
    algopy = load_algopy()
    out = []
    out.append(("absolute", [("algopy.absolute", algopy.absolute), ("numpy.absolute", numpy.absolute),
                             ("abs()", abs)],
                lambda x0: [abs(x0), numpy.sign(x0)], [0.5, -0.5, -3.0, 2.0]))
    out.append(("sign", [("algopy.sign", algopy.sign)],
                lambda x0: [numpy.sign(x0), 0.0], [0.5, -0.5, -3.0]))
    for (lo, hi) in ((-1.0, 1.0),):
        out.append(("botched_clip(%s,%s)" % (lo, hi),
                    [("special.botched_clip", lambda x, lo=lo, hi=hi: algopy.special.botched_clip(lo, hi, x))],
                    lambda x0, lo=lo, hi=hi: [min(max(x0, lo), hi), 1.0 if lo < x0 < hi else 0.0],
                    [0.5, -0.5, -3.0, 2.0]))
    return out


def get_patterns(rep, D, vals, maxnz, tag):
    res = tlc_ok(run_tlc("Gen_TPS", GEN_CFG % (D, vals, "cmat", maxnz), workers=1, timeout=1200), "Gen_TPS " + tag)
    rep.add_tlc(res, "Gen_TPS_" + tag)
    pats = [(r["x"], r["C"]) for r in res.records]
    if not pats:
        raise Machinery("Gen_TPS produced no patterns")
    return pats


def build(pats, D, base_pts, P, scale, layout):
    """Pack patterns into one UTPM: element e of direction p carries pattern idx[p][e] at base point pts[p][e].

    layout: 'vec' -> shape (n,), 'scalar' -> shape () (n==1), 'mat' -> shape (n//2, 2)
    """
    algopy = load_algopy()
    n_el = (len(pats) + P - 1) // P
    if layout == "mat" and n_el % 2:
        n_el += 1
    cplx = isinstance(scale, complex) or any(isinstance(b, complex) for b in base_pts)
    data = numpy.zeros((D, P, n_el), dtype=complex if cplx else float)
    idx = numpy.zeros((P, n_el), dtype=int)
    x0s = numpy.zeros((P, n_el), dtype=complex if cplx else float)
    k = 0
    for e in range(n_el):
        for p in range(P):
            i = k % len(pats)
            idx[p, e] = i
            x0 = base_pts[(k + p) % len(base_pts)]
            x0s[p, e] = x0
            data[0, p, e] = x0
            for d in range(1, D):
                data[d, p, e] = pats[i][0][d] * scale
            k += 1
    if layout == "mat":
        data = data.reshape((D, P, n_el // 2, 2))
    elif layout == "scalar":
        assert n_el == 1
        data = data.reshape((D, P))
    return algopy.UTPM(data.copy()), idx, x0s


def expected_coeffs(C, F, scale, D):
    """y_d = sum_k C[d][k] scale^k F_k  and the magnitude sum_k |C[d][k] scale^k F_k|
    (plus, for d >= 1, a floor relative to the size of the coefficients involved: terms that cancel exactly in exact
    arithmetic - odd/even functions at 0 - leave rounding noise of that order; y_0 = F_0 has no such floor)"""
    ys, ms = [], []
    fmax = max(abs(f) for f in F[:D]) if D else 0.0
    for d in range(D):
        terms = [C[d][k] * (scale ** k) * F[k] for k in range(d + 1)]
        ys.append(sum(terms))
        m = sum(abs(t) for t in terms)
        if d >= 1:
            m += 1e-4 * fmax * sum(abs(C[d][k] * (scale ** k)) for k in range(d + 1))
        ms.append(m)
    return ys, ms


def check_fn(rep, fn, pats, D, P, scale, layout, base_pts, kind):
    algopy = load_algopy()
    x, idx, x0s = build(pats, D, base_pts, P, scale, layout)
    x_before = x.data.copy()
    Fs = {}
    for x0 in set(x0s.ravel().tolist()):
        Fs[x0] = fn["F"](x0, D)
    for ename, call in fn["entries"]:
        sig = "%s via %s (%s)" % (fn["name"], ename, kind)
        try:
            y = call(x)
        except Exception as e:
            rep.violation(sig + " raises", {"D": D, "P": P, "layout": layout, "error": repr(e)[:300]})
            continue
        if isinstance(y, numpy.ndarray) and y.dtype == object and y.shape == x.data.shape[2:]:
            # numpy's ufunc machinery applied the method element-wise: an object array of 0-d polynomials
            try:
                y = algopy.UTPM(numpy.stack([yy.data for yy in y.ravel()], axis=-1).reshape(x.data.shape))
            except Exception:
                pass
        if not isinstance(y, algopy.UTPM) or y.data.shape != x.data.shape:
            rep.violation(sig + " shape", {"D": D, "P": P, "layout": layout,
                                           "got": getattr(getattr(y, "data", None), "shape", str(type(y)))})
            continue
        yd = y.data.reshape((D, P, -1))
        bad = []
        for p in range(P):
            for e in range(idx.shape[1]):
                pat, C = pats[idx[p, e]]
                x0 = x0s[p, e]
                ys, ms = expected_coeffs(C, Fs[x0.item() if hasattr(x0, "item") else x0], scale, D)
                nz = any(v != 0 for v in pat[1:])
                rep.case((fn["name"], ename, complex(x0), tuple(pat), complex(scale), D), nontrivial=(D >= 2 and nz))
                for d in range(D):
                    got = yd[d, p, e]
                    tol = 1e-9 * ms[d] + 1e-18
                    if not (abs(got - ys[d]) <= tol):
                        bad.append({"d": d, "p": p, "x0": str(x0), "pattern": pat, "scale": str(scale),
                                    "got": str(got), "expected": str(ys[d])})
                        break
        if bad:
            rep.violation(sig, {"D": D, "P": P, "layout": layout, "n_bad": len(bad), "first": bad[:5]})
        if not numpy.array_equal(x.data, x_before):
            rep.violation(sig + " modifies its argument", {"D": D, "P": P})
        # the same polynomial handed over as a non-contiguous view (transposed matrix / reversed vector): an element-wise
        # function commutes with the permutation of the elements, and the argument stays what it was
        if layout in ("mat", "vec"):
            try:
                xv = x.T if layout == "mat" else x[::-1]
                yv = call(xv)
                if isinstance(yv, numpy.ndarray) and yv.dtype == object:
                    yv = algopy.UTPM(numpy.stack([yy.data for yy in yv.ravel()], axis=-1).reshape(xv.data.shape))
                want = y.T.data if layout == "mat" else y[::-1].data
                if yv.data.shape != want.shape or not numpy.allclose(yv.data, want, rtol=1e-12, atol=0, equal_nan=True):
                    rep.violation(sig + " of a non-contiguous view differs from the function of the contiguous polynomial", {"D": D, "P": P, "layout": layout})
                if not numpy.array_equal(x.data, x_before):
                    rep.violation(sig + " modifies its (view) argument", {"D": D, "P": P})
            except Exception as e:
                rep.violation(sig + " of a non-contiguous view raises", {"D": D, "P": P, "layout": layout, "error": repr(e)[:300]})
        rep.replayed(1)


def run(rep, tier, seed):
    algopy = load_algopy()
    rnd = random.Random(seed)
    quick = tier == "quick"
    # ---- M
    mc = tlc_ok(run_tlc("MC_TPS", MC_CFG % ((3, "V4") if quick else (4, "V3")), workers=16, timeout=3000), "MC_TPS")
    rep.add_tlc(mc, "MC_TPS")
    # ---- R: patterns
    sets = []
    if quick:
        sets.append((4, get_patterns(rep, 4, "V5", 9, "D4_all")))
        sets.append((6, get_patterns(rep, 6, "V5", 1, "D6_sparse")))
    else:
        sets.append((5, get_patterns(rep, 5, "V5", 9, "D5_all")))
        sets.append((8, get_patterns(rep, 8, "V5", 2, "D8_sparse2")))
        sets.append((10, get_patterns(rep, 10, "V3", 1, "D10_sparse")))
        sets.append((3, get_patterns(rep, 3, "V7", 9, "D3_wide")))
    cat = catalogue()
    fns = []
    for c in cat:
        fns.append(dict(name=c["name"], entries=c["entries"], real=c["real"], cplx=c["cplx"],
                        F=lambda x0, n, c=c: taylor_F(c["name"], c["mpf"], x0, n)))
    for name, entries, Ffun, pts in piecewise_catalogue():
        fns.append(dict(name=name, entries=entries, real=pts, cplx=[],
                        F=lambda x0, n, Ffun=Ffun: (list(Ffun(float(numpy.real(x0)))) + [0.0] * n)[:n]))
    for D, pats in sets:
        rep.sample({"D": D, "pattern_x": pats[len(pats) // 2][0], "C": pats[len(pats) // 2][1]}, maxn=3)
        for fn in fns:
            # real data: many directions, vector / matrix / scalar layouts
            check_fn(rep, fn, pats, D, 3, 1, "vec", fn["real"], "real")
            check_fn(rep, fn, pats, D, 1, 1, "mat", fn["real"], "real")
            one = [pats[rnd.randrange(len(pats))]]
            check_fn(rep, fn, one, D, 1, 1, "scalar", fn["real"], "real")
            check_fn(rep, fn, [pats[rnd.randrange(len(pats))] for _ in range(2)], D, 2, 1, "scalar", fn["real"], "real")
            # arguments in which EVERY element and direction has vanishing low-order coefficients (first non-zero order
            # m >= 2, or none at all): kernels that decide something from the whole array (leading order, early exits)
            for m in range(2, D + 1):
                grp = [p_ for p_ in pats if not any(p_[0][1:m])]
                if not grp or len(grp) == len(pats):
                    continue
                check_fn(rep, fn, grp[:40], D, 2, 1, "vec", fn["real"], "real, leading order >= %d everywhere" % m)
                check_fn(rep, fn, [grp[rnd.randrange(len(grp))]], D, 1, 1, "scalar", fn["real"], "real, leading order >= %d, alone" % m)
            if fn["cplx"]:
                # complex base point with real higher coefficients, and complex higher coefficients c*h
                check_fn(rep, fn, pats, D, 2, 1, "vec", fn["cplx"], "complex base")
                check_fn(rep, fn, pats, D, 2, 0.5 - 1j, "vec", fn["cplx"] + [fn["real"][1] + 0j], "complex coeffs")
    # x(t)**y(t), both polynomials, at x_0 = 1 where the result is rational (spec value exact)
    Dp = 4 if quick else 5
    res = tlc_ok(run_tlc("Gen_TPS", GEN_CFG % (Dp, "V3", "powxy", 2 if quick else 3), workers=1, timeout=1200), "Gen_TPS powxy")
    rep.add_tlc(res, "Gen_TPS_powxy")
    recs = res.records
    xd = numpy.array([[float(to_frac(q)) for q in r["x"]] for r in recs]).T.reshape(Dp, 1, len(recs))
    yd = numpy.array([[float(to_frac(q)) for q in r["y"]] for r in recs]).T.reshape(Dp, 1, len(recs))
    zx = numpy.array([[float(to_frac(q)) for q in r["z"]] for r in recs]).T.reshape(Dp, 1, len(recs))
    try:
        z = algopy.UTPM(xd.copy()) ** algopy.UTPM(yd.copy())
        err = abs(z.data - zx)
        badi = numpy.argwhere(err > 1e-9 * (1 + abs(zx)))
        for r in recs:
            rep.case(("powxy", str(r["x"]), str(r["y"])), nontrivial=True)
        if len(badi):
            i = badi[0]
            rep.violation("x**y both polynomials", {"x": recs[i[2]]["x"], "y": recs[i[2]]["y"], "d": int(i[0]),
                                                     "got": float(z.data[tuple(i)]), "expected": float(zx[tuple(i)])})
    except Exception as e:
        rep.violation("x**y both polynomials raises", {"error": repr(e)[:300]})
    rep.replayed(1)
    # binding self-test: a wrong expectation (one C entry changed by 1) must be noticed
    D, pats = sets[0]
    pat, C = next((p for p in pats if p[0][1] != 0 and D >= 3 and p[0][2] != 0), pats[-1])
    C2 = [list(r) for r in C]; C2[2][1] += 1
    F = taylor_F("exp", load_mpmath().exp, 0.75, D)
    ys, ms = expected_coeffs(C2, F, 1, D)
    x = numpy.zeros((D, 1)); x[0] = 0.75
    for d in range(1, D):
        x[d] = pat[d]
    got = algopy.exp(algopy.UTPM(x)).data[2, 0]
    if abs(got - ys[2]) <= 1e-9 * ms[2] + 1e-12:
        raise Machinery("self-test: corrupted C-matrix entry not detected")
    rep.assumptions += ["F_k = f^(k)(x0)/k! from mpmath.taylor at 40 digits (independent of algopy/SciPy)",
                        "base points sampled from a per-function grid inside the open domain",
                        "tolerance 1e-9 * sum_k |C[d][k] F_k| + 1e-12"]
    return rep.finish("one case = (function, entry point, base point, coefficient pattern, complex scale, D); patterns "
                      "enumerated exhaustively by TLC over {-2..2}^(D-1) (plus sparse patterns at higher D); non-trivial = "
                      "D>=2 and some higher coefficient non-zero; distinct by that tuple",
                      {"functions": len(fns), "pattern_sets": [(D, len(p)) for D, p in sets]})
