"""Regenerates /verif/MANIFEST.json from the table below (run after adding a check)."""
import json, os
V = os.path.dirname(os.path.dirname(os.path.abspath(__file__)))

CHECKS = {
 "C10": dict(
   technique="TLA+ comparison actions and shape rules in UTPMachine + dispatch table spec (Dispatch.tla), TLC-generated behaviours replayed; NumPy executed on the zeroth coefficients as the reference the property names",
   text="Comparison truth values are computed by the spec (NumPy comparison of zeroth coefficients over all elements and directions, with broadcasting) for all behaviours of the bounded machine and compared with bool(x rel y); every TLC-generated behaviour is re-run by NumPy on the zeroth coefficients of each direction and shape/len/size/ndim and the zeroth coefficient of every object must agree after each action; the shape functions also on wide, tall and single-row/column matrices with diagonal offsets -2..3; 80 further functions (elementary, special, linear algebra, factorizations with NumPy's signs and pivots, fft, tile, dtype mixes) x shapes x (D,P) are compared with NumPy/SciPy per direction; the dispatch table (first argument providing the method wins, else numpy / numpy.linalg / scipy.linalg) is model-checked and observed through result types and bit-identical plain results.",
   note="relational for transcendental and factorization operations (NumPy/SciPy as reference, as stated by the property); != is Python's default negation of == and not claimed",
   design="4 (C10)"),
 "C11": dict(
   technique="direction independence by construction in every TLA+ module (coefficients defined per direction) + exact multi-direction replays with different base points per direction + relational re-run of every TLC-generated behaviour on each single direction",
   text="All TLC-generated multi-direction behaviours of the machine (P = 2, 3) are re-run on every single direction and compared coefficient by coefficient; the linear-algebra and factorization instances are packed pairwise as two directions with DIFFERENT base matrices and compared with their exact expectations; 25 further operations (max, prod, det with differing pivots, rank-deficient/wide QR, eigh, svd, expm, constants with more axes than the polynomial), CGraph.jacobian(UTPM) and reverse sweeps with P in {2,3} are compared with single-direction runs.",
   note="the relational part compares two executions of the real code (the property's own formulation); exact expectations for the spec-covered fragment",
   design="4 (C11)"),
 "C12": dict(
   technique="truncation theorems model-checked in TLC (MC_TPS TruncLaw, C-matrix leading block) + every TLC-generated behaviour re-run at every D' < D + functions evaluated at every D' against the leading block of the spec's C-matrix",
   text="TLC proves Trunc(op(x..),D') = op(Trunc(x,D')..) for product, quotient and composition and that the C-matrix for D' is the leading block of that for D; every behaviour of the machine at D = 3,4 is re-run on inputs truncated to each D' < D; every elementary/special function is compared at every D' <= D with the exact expectation; 30 operations (incl. factorizations with repeated eigenvalues, x**y, in-place forms, abs at an exact zero, extract_* read from longer propagations; branch-selecting functions maximum/minimum/max/absolute/sign/comparisons on data with ties at every order) and reverse sweeps (incl. seeds with vanishing low-order coefficients) are compared between D and every D' < D; D = 1 equals the plain NumPy value (C10 zeroth mode).",
   note="relational for operations without an exact spec value",
   design="4 (C12)"),
 "C08": dict(
   technique="TLA+ spec constructing factorization instances FROM exact rational factor series (Factor.tla: Cayley transform of skew series for orthogonal factors) with the defining identities model-checked; instances replayed through algopy.qr/qr_full/cholesky/lu/eigh/svd/eig",
   text="TLC builds, for every base orthogonal/permutation matrix, eigenvalue splitting pattern and coefficient pattern of the catalogue, A(t) = Q(t)R(t), L L^T, P L U, Q Lambda Q^T, U diag(s) V^T, X Lambda X^-1 as exact rational series and checks the identities of the factors. algopy's results must (a) agree with NumPy/SciPy at order 0, (b) reproduce the constructed unique factor series up to the constant sign convention, (c) satisfy the defining equations at every order, (d) have the triangular/diagonal/permutation structure - for square, tall, wide and full QR, Cholesky, LU with all six 3x3 row permutations, eigh with distinct eigenvalues and with repeated ones splitting at order 1, 2, never, and in two stages, SVD 3x2, eig at D=2; single instances and pairs packed as two directions with different base matrices; sparse patterns (a whole order of factor coefficients zero), matrices scaled by 1e-9 / 2^-30 (eigh with scaled epsilon), out= buffers holding an earlier result (qr, qr_full, cholesky), and complex eigenproblems (real base matrix with complex higher coefficients; complex spectrum) generated by the Gaussian-rational instance MC_CFactor of the same modules.",
   note="matrix sizes <= 3, D <= 4 (5 thorough); eigenvectors inside a cluster of coinciding eigenvalue series and completion columns are checked only through the defining equations; tolerance 1e-8 relative",
   design="3.6, 4 (C08)"),
 "C07": dict(
   technique="TLA+ spec of linear algebra over the ring Q[t]/(t^D) (LinAlg.tla: Leibniz determinant, adjugate inverse, dot for every rank pair from NumPy's rule); TLC checks the defining identities on every instance and prints exact rational results; replay against algopy",
   text="TLC checks, as identities modulo t^D on every instance, A inv(A) = inv(A) A = I, det(A) inv(A) = adj(A), A solve(A,B) = B, multiplicativity of det and the triangular product rule, (log det)' = det'/det, the transpose rule of dot, outer = column x row, exp(A) exp(-A) = I for nilpotent A. Each instance (13 base matrices incl. ones needing row interchanges and a cyclic row permutation, 10 rank combinations of dot up to 3-D x 3-D, operand kinds UTPM/UTPM, UTPM/ndarray, ndarray/UTPM, single and paired as two directions with different base matrices, D <= 5) is run through algopy.inv/solve/det/logdet/trace/dot/outer/expm and compared with the exact rational series; operands must be unchanged.",
   note="matrix sizes <= 3, D <= 5 (32-bit integers in TLC limit the size of exact inverses); expm beyond nilpotent matrices is compared with algopy.exp/sin/cos on diagonal and rotation generators; solve with a 1-D right-hand side is documented as unsupported (explicit ValueError)",
   design="3.5, 4 (C07)"),
 "C09": dict(
   technique="TLA+ spec of forward-mode seeding/extraction (direction sets, polarisation identities, exact interpolation) over the TPS algebra, TLC exhaustive over monomials x integer points; instances replayed through UTPM.init_* / UTPM arithmetic / UTPM.extract_*; DriverSession.tla: the drivers as a session of outstanding seeded evaluations extracted in any order (vector- and matrix-valued programs), every behaviour replayed",
   text="TLC proves extract o propagate o init = analytic derivative for Jacobian, J v, Hessian, H v and all d-th order partials for every monomial up to the degree bound in N <= 3 (4) variables at every integer point of the catalogue (by linearity: all polynomials of that degree); each instance is evaluated through the real drivers with float and int points, plus integer combinations and exp/sin compositions (chain rule on the exact partials), and the direction sets produced by init_hessian / init_hess_vec are compared with the spec's sets. DriverSession: every interleaving of seeding and extracting up to the bound (<= 2 outstanding evaluations, 4 steps; tensors: <= 3, 6 steps) over scalar-, vector- and matrix-valued monomial programs is replayed; each extraction must return the exact derivative object regardless of the rest of the session.",
   note="N <= 3, degree <= 3, tensor order <= 2 (quick); N <= 4 with degree <= 3 and order <= 2, and N <= 3 with degree <= 4 and order <= 3 (thorough); non-vector inputs of init_tensor are documented as unsupported",
   design="3.8, 4 (C09)"),
 "C16": dict(
   technique="TLA+ transition relation 'apply d/dx once' on closed differential rings (NthDeriv.tla) with normal forms cross-validated against the TPS algebra; TLC prints the normal form of every (function, order); replay evaluates it with NumPy/SciPy generator values",
   text="Order n+1 is the derivative of order n by construction of the spec (sum/product/chain rule on generators); for the algebraic families the normal forms are additionally checked in TLC against independently computed Taylor coefficients. Every exported function of algopy.nthderiv is compared with the spec's normal form for all n <= 8 (10), parameters (m; a,b incl. negative a) and a grid of domain points.",
   note="tan/tanh need mpmath inside algopy (absent) and are outside the property's list; generator values from NumPy/SciPy",
   design="3.9, 4 (C16)"),
 "C17": dict(
   technique="TLA+ spec of conversions as index maps and of LAPACK pivot vectors as interchange sequences (Conv.tla), TLC exhaustive over all N! pivot vectors and the shape catalogue; replayed bit-wise",
   text="TLC proves bijectivity/round-trip theorems of the conversion index maps and, for all N! pivot vectors with N <= 5 (6), that PermOf is a permutation whose sign equals the inversion parity. Every pivot vector is realised by a matrix A = P L U whose partial pivoting yields exactly that vector; scipy.linalg.lu_factor must return it and utils.piv2mat/piv2det, UTPM.lu2, UTPM.lu and UTPM.det must reassemble A (mod t^D); all index maps (utpm2dirs, base/direction round trips, symvec/vecsym for F/L/U on ndarray and UTPM, shift, as_utpm/ndarray2utpm on C-ordered, transposed and nested containers) are compared bit-wise.",
   note="shape catalogue of 5 element shapes, D,P <= 3; combine_blocks and coeff_op are covered only through as_utpm-style containers",
   design="3.9, 4 (C17)"),
 "C03": dict(
   technique="TLA+ transition system of the tracer's reverse sweep (Tracer.tla: adjoint buffers mirroring views, saved/restored in-place writes, roll-forward) model-checked against ybar^T J from forward-mode series carried in a fresh reference execution; TLC behaviours replayed through the real CGraph; C-matrix x mpmath for analytic pullbacks",
   text="TLC checks AdjointCorrect (reverse sweep = ybar^T J along the curve, every Taylor order) for every program up to the instruction bound over {views, in-place buffer writes of cells and of whole buffers (an array, or a scalar that is broadcast), +,-,*,/, integer powers, square, reciprocal, sum, prod, dot, constants, reversed views}, from a plain and a buffered prefix, D=2, non-symmetric seeds; every behaviour is replayed through real Function/CGraph objects and xbar compared exactly. Unary analytic functions recorded through the tracer are checked against spec C-matrix x mpmath for all coefficient patterns (two sweeps). The remaining API (linear algebra, factorizations, reductions with axis, broadcasting with constants, item assignment with N-d broadcasting, full reductions over non-mergeable views, fft, tile, reshape of transposed data) is checked with the dot-product identity of the property against forward mode.",
   note="program length <= 3 after the prefix (4 in thorough), N=2 input cells, D<=2 in the spec (analytic part D<=5); each full-API program also runs with every intermediate value consumed once more by a later operation (pullbacks must accumulate); the full-API fragment is relational (J v from algopy's forward mode by a 4-point stencil in h, tolerance 2e-6)",
   design="3.7, 4 (C03)"),
 "C04": dict(
   technique="TLA+ model of the eight graph drivers as seed construction + replay + reverse sweep on the persistent graph state (Tracer!Drv), reference from forward-mode derivative series of a fresh execution; TLC behaviours replayed against the real drivers for both recording kinds",
   text="TLC checks DriverCorrect for gradient, jacobian, jac_vec, vec_jac, hessian, hess_vec, vec_hess, vec_hess_vec and jacobian(UTPM) on every program up to the bound (incl. buffered programs where an overwritten cell had been read by a product), recorded at (1,2) and evaluated at other points, in every position of a call history; each behaviour is replayed with the graph recorded from ndarray and from UTPM inputs and the driver's return value compared with the exact rational derivative.",
   note="polynomial/rational programs only (exact fragment), N=2, M<=2, small catalogues of points and vectors",
   design="3.7, 3.8, 4 (C04)"),
 "C05": dict(
   technique="TLA+ model of recording and re-evaluation (Tracer.tla: RecordOnce action property, ReplayIsProgram invariant), TLC bounded-exhaustive; behaviours replayed through real Function nodes with the graph structure and every node value compared after each instruction",
   text="TLC checks RecordOnce (each executed operation appended exactly once, in order, after its operands, nothing while recording is off) and ReplayIsProgram (re-evaluation with ndarray / UTPM(D,P) inputs equals a fresh direct execution of the program, with per-kind view/copy semantics) for all programs and call sequences within the bounds; the replay checks cg.functionList (identity, ID = position, operand order) after every instruction, node values while recording, and every pushforward result, for graphs recorded from ndarray and UTPM inputs, with trace_off/trace_on toggles.",
   note="programs <= 3 instructions after the prefix (4 in thorough), one independent vector of 2 cells; API breadth beyond the exact fragment (x**y with traced exponent, several independents, fft keyword arguments) through the relational full-API replay (graph replay vs direct execution of the same Python function)",
   design="3.7, 4 (C05)"),
 "C06": dict(
   technique="TLA+ call histories on the tracer model (forward evaluation at other points/degrees/kinds, reverse sweeps with other seeds, drivers, unrelated graphs) with every call's result checked against the reference of that call's arguments; deviation switches reproduce the pre-fix defects as TLC counterexamples; histories replayed on the real graph",
   text="For every program and every history of <= 3 (4) calls TLC evaluates ReplayIsProgram / ForwardValuesStable / AdjointCorrect / DriverCorrect after each call; every history is replayed on the real CGraph comparing each return value exactly and the dependent's forward value before/after each sweep. Full-API programs (tan, sqrt, erf, dot, inv, solve, qr, eigh, buffers) are run through pushforward elsewhere; pullback; pushforward; three pullbacks and compared with a fresh graph and among themselves; all node values must be unchanged by the sweeps.",
   note="bounded programs/histories, incl. a bare reverse sweep directly after a single-direction driver (real data; the complex instance of the model for real/complex data alternating on one graph); results handed out by earlier calls are held by reference and must keep their values over later calls; full-API part is relational (fresh graph as reference), as the property states ('a function of that call's arguments only')",
   design="3.7, 4 (C06)"),
 "C02": dict(
   technique="TLA+ state machine of UTPM objects on an explicit heap (UTPMachine over TPS/NDA), TLC bounded-exhaustive + simulation; every TLC behaviour replayed into algopy with the full projected heap compared after each action",
   text="TLC enumerates every behaviour (sequence of binary/reflected/in-place operators, integer powers, unary ops with UTPM, array and scalar operands under NumPy broadcasting, incl. constant arrays with more axes than the polynomial and leading extent P) of the bounded UTPMachine instance, checks the design invariants on it, and each behaviour is executed on real UTPM objects: after every action all objects must equal the spec state (exact rationals, shapes, memory sharing). The algebra itself (ring laws, division, constants as degree-0 polynomials) is model-checked in MC_TPS.",
   note="bounded shapes (<=3 axes, extents <=4), D<=5, P<=2, behaviours of length <=2 exhaustive (<=4 simulated); values on a rational grid; complex operands only through the complex instance of the machine",
   design="3.4, 4 (C02)"),
 "C13": dict(
   technique="TLA+ heap/view model (NDA: cell lists, basic indexing, permutation, reshape, broadcasting) + UTPMachine shape actions; TLC behaviours replayed with memory-sharing comparison by byte address and per-slice NumPy cross-check",
   text="For every behaviour of shape actions TLC generates (all index expressions of the catalogue: ints, negative ints, slices with positive/negative steps, Ellipsis, newaxis, tuples; UTPM/array/scalar right-hand sides; transpose; reshape; sum over any axis), the real objects must have the spec's shape, values and exactly the spec's memory sharing after each action, and each operation must equal the NumPy operation on every coefficient slice.",
   note="bounded shapes and catalogue of index expressions; reshape only where NumPy's view/copy choice is unambiguous; tile/diag/triu/tril/trace (square and rectangular matrices, offsets -2..2)/symvec/fft are covered by the extended machine actions listed in DESIGN",
   design="3.3, 3.4, 4 (C13)"),
 "C14": dict(
   technique="TLA+ action property Frame on UTPMachine (no non-in-place action changes an existing cell); aliased/in-place forms defined from the pre-state; TLC behaviours mixing views and in-place operators replayed with every operand compared after each action",
   text="TLC checks Frame and ViewSemantics on all behaviours of the bounded instance; every behaviour (x op x, x op= x, x op= view(x), x op= x.T, assignments between overlapping views, all four operators, D<=4, P<=2) is replayed and after each action every object, operands included, must equal the spec state.",
   note="bounded behaviours (length <=2 exhaustive, <=4 simulated); operand immutability of elementary functions is checked in the C01 replay, of linear algebra in C07/C08",
   design="3.4, 4 (C14)"),
 "C01": dict(
   technique="TLA+ spec of Q[t]/(t^D) (composition by defining identity); TLC proves the ring/ODE/Horner/truncation theorems and enumerates all coefficient patterns with their integer C-matrix; replay into algopy with mpmath Taylor coefficients as the only transcendental input",
   text="For every function, entry point, base point from a grid, P, shape and EVERY coefficient pattern over {-2..2}^(D-1) (plus sparse patterns to D=6/10 and complex data), each output coefficient of algopy equals sum_k C[d][k] F_k where C is computed by the TLA+ spec (exact integers) and F_k = f^(k)(x0)/k! comes from mpmath at 40 digits; the spec's algebra itself is model-checked (ODE theorem y' = f'(x) x', Horner, ring laws, truncation).",
   note="base points sampled from finite per-function grids; mpmath is trusted for f^(k)(x0); tolerance 1e-9 relative to sum|C F|; x**y (both polynomials) only at x0=1 where it is rational",
   design="4 (C01)"),
 "C15": dict(
   technique="TLA+ spec of the interpolation identity (exact rationals), TLC exhaustive over (N,d); spec-generated Gamma rows replayed against exact_interpolation",
   text="TLC proves, in exact rational arithmetic, sum_j Gamma(i,j) ray_j^alpha = [i=alpha] for every (N,d) and every pair of multi-indices within the bounds, with the multi-index set defined as a set (not by the recursive generator); every Gamma entry, the index list and the rays of the implementation are compared with the spec's values.",
   note="bounded (N,d) (quick N<=4,d<=6, at most 40 monomials; thorough N<=5,d<=6, at most 130); for d = 7..10 (N <= 3) TLC's 32-bit rationals overflow: there the identity is evaluated on the implementation's Gamma with the exact integer matrix V (relational, no spec-generated Gamma rows); float Gamma vs exact rational with 1e-10 relative tolerance; default seed matrix S=I",
   design="4 (C15)"),
}

PENDING = {}

def main():
    props = [json.loads(l) for l in open(os.path.join(V, "properties.jsonl"))]
    checks = []
    na = []
    for p in props:
        pid = p["id"]
        if pid in CHECKS:
            c = CHECKS[pid]
            checks.append({
                "property_id": pid,
                "quick_cmd": "./check %s --tier quick" % pid,
                "thorough_cmd": "./check %s --tier thorough" % pid,
                "evidence_file": "/verif/evidence/%s.json" % pid,
                "replay_cmd_template": "./check %s --replay {path}" % pid,
                "engine": "tlc",
                "level_claimed": {"category": "model_checking", "text": c["text"], "design_ref": c["design"]},
                "level_note": c["note"],
                "technique": c["technique"],
            })
        else:
            na.append({"property_id": pid, "reason": PENDING.get(pid, "check under construction in this session; not claimed yet")})
    man = {
        "version": 1,
        "setup_cmd": "/venv/bin/pip install -q --no-index --find-links /opt/veriftools/wheels --target /verif/.deps mpmath",
        "hooks": {
            "guard": "ALGOPY_VERIF_PROBE",
            "enable": "no source hooks: the harness installs run-time wrappers in its own process when ALGOPY_VERIF_PROBE=1; /repo is imported from its working tree (sys.path[0]=/repo)",
            "baseline_off_cmd": "cd /repo && /venv/bin/python -m pytest -ra -q -p no:cacheprovider --timeout=900 --continue-on-collection-errors",
            "source_commits": [],
            "add_only": True,
        },
        "engines": [
            {"name": "tlc", "path": "/opt/veriftools/tla/tla2tools.jar", "serves_properties": sorted(CHECKS),
             "kind_free_text": "TLA+ specifications under /verif/spec checked with TLC (bounded exhaustive + simulation); the same specs generate behaviours that are replayed into /repo's algopy and validate traces recorded from it"},
        ],
        "checks": checks,
        "not_applicable": na,
        "notes": "All checks: ./check <id> [--tier quick|thorough] [--replay file]; exit 0 held, 1 violation (VIOLATION line), 2 machinery failure. known_findings.json lists recorded and fixed defects.",
    }
    json.dump(man, open(os.path.join(V, "MANIFEST.json"), "w"), indent=1)
    print("wrote MANIFEST.json with", len(checks), "checks,", len(na), "not_applicable")

if __name__ == "__main__":
    main()
