"""C03 Reverse mode agrees with forward mode at every Taylor order.

Spec: Tracer reverse sweep (adjoint buffers mirroring value views, in-place writes with saved/restored contents, roll
forward) with the mathematical adjoint of every instruction; reference AdjOf = ybar^T J along the curve from the
forward-mode derivative series carried in every cell of a fresh execution.  M: AdjointCorrect for every program <=
MaxInstr instructions (two fixed prefixes, "plain" and "buffered"), curves with D = 2, non-symmetric seeds non-zero at
all orders.  R: (exact fragment) each behaviour replayed through the real CGraph, xbar compared with the exact rational
adjoint at every order; (analytic functions) spec C-matrix x mpmath coefficients give the expected xbar of y = f(x)
recorded through the tracer; (full API, relational) <xbar,v> = <ybar, J v> with J v from forward mode.
"""
import random
import numpy
from common import *
import tracer_replay as T
import c01


def analytic_pullbacks(rep, tier, seed):
    """x recorded -> y = f(x); pullback with integer ybar patterns; expected xbar = ybar * f'(x) (mod t^D) where
    f'(x)_e = sum_k C[e][k] (k+1) F_{k+1}"""
    algopy = load_algopy()
    rnd = random.Random(seed)
    D = 4 if tier == "quick" else 5
    pats = c01.get_patterns(rep, D, "V5", 9, "pb_D%d" % D)
    if tier == "quick":
        pats = pats[::3]
    fns = [c for c in c01.catalogue() if hasattr(algopy.Function, c["name"].split("(")[0]) or c["name"].startswith(("pow_", "erf", "dawsn", "logit", "expit", "gammaln", "psi", "polygamma", "hyperu"))]
    ybars = [[1, 0, 0, 0, 0], [2, -1, 3, 1, -2], [0, 1, 0, 2, 0]]
    for fn in fns:
        if fn["name"].startswith("rpow"):
            continue
        call = fn["entries"][0][1]
        P = 2
        n_el = (len(pats) + P - 1) // P
        x, idx, x0s = c01.build(pats, D, fn["real"], P, 1, "vec")
        ybd = numpy.zeros((D, P, n_el))
        yi = numpy.zeros((P, n_el), dtype=int)
        for p in range(P):
            for e in range(n_el):
                yi[p, e] = (p + e) % len(ybars)
                ybd[:, p, e] = ybars[yi[p, e]][:D]
        sig = "analytic pullback %s" % fn["name"]
        try:
            cg = algopy.CGraph()
            fx = algopy.Function(x)
            fy = call(fx)
            cg.trace_off()
            cg.independentFunctionList = [fx]; cg.dependentFunctionList = [fy]
            y0 = fy.x.data.copy()
            for sweep in range(2):
                cg.pullback([algopy.UTPM(ybd.copy())])
                xbar = fx.xbar.data
                bad = None
                for p in range(P):
                    for e in range(n_el):
                        pat, C = pats[idx[p, e]]
                        F = fn_F(fn, x0s[p, e], D + 1)
                        fp = [sum(C[d][k] * (k + 1) * F[k + 1] for k in range(d + 1)) for d in range(D)]
                        fpm = [sum(abs(C[d][k] * (k + 1) * F[k + 1]) for k in range(d + 1)) for d in range(D)]
                        yb = ybars[yi[p, e]][:D]
                        for d in range(D):
                            exp = sum(yb[c] * fp[d - c] for c in range(d + 1))
                            mag = sum(abs(yb[c]) * fpm[d - c] for c in range(d + 1))
                            if abs(xbar[d, p, e] - exp) > 1e-9 * mag + 1e-12:
                                bad = {"d": d, "x0": float(numpy.real(x0s[p, e])), "pattern": pat, "ybar": yb, "got": float(xbar[d, p, e]), "expected": float(exp), "sweep": sweep}
                                break
                        if sweep == 0:
                            rep.case((sig, float(numpy.real(x0s[p, e])), tuple(pat), yi[p, e]), nontrivial=any(pat[1:]))
                        if bad:
                            break
                    if bad:
                        break
                if bad:
                    rep.violation(sig + (" (second sweep)" if sweep else ""), bad)
                    break
            if not numpy.array_equal(y0, fy.x.data):
                rep.violation(sig + " modifies the forward value", {})
        except Exception as ex:
            rep.violation(sig + " raises " + type(ex).__name__, {"what": repr(ex)[-300:]})
        rep.replayed(1)


def fn_F(fn, x0, n):
    c = fn
    return c01.taylor_F(c["name"], c["mpf"], float(numpy.real(x0)), n)


def run(rep, tier, seed):
    q = tier == "quick"
    mr = 2000 if q else None
    configs = [
        dict(name="rev_complex", module="MC_CTracer", maxinstr=2, maxhist=2, ops="OpsA1", points="PtsCx", seeds="SeedsCx", max_replay=mr),
        dict(name="rev_complex_views", module="MC_CTracer", maxinstr=2, maxhist=2, ops="OpsA4", points="PtsCx", seeds="SeedsCx", max_replay=mr),
        dict(name="rev_complex_P2", module="MC_CTracer", P=2, maxinstr=2, maxhist=2, ops="OpsCore", points="PtsCxP2", seeds="SeedsCx", max_replay=mr),
        dict(name="rev_two_independents", maxinstr=2, maxhist=2, ops="OpsTwo", points="PtsTwo", seeds="SeedsB", prefix="two", NI=2, max_replay=mr),
        dict(name="rev_A1", maxinstr=3, maxhist=2, ops="OpsA1", points="PtsD2", seeds="SeedsB", max_replay=mr),
        dict(name="rev_A2", maxinstr=3, maxhist=2, ops="OpsA2", points="PtsD2", seeds="SeedsB", max_replay=mr),
        dict(name="rev_A3", maxinstr=3, maxhist=2, ops="OpsA3", points="PtsD2", seeds="SeedsB", max_replay=mr),
        dict(name="rev_A4", maxinstr=3, maxhist=2, ops="OpsA4", points="PtsD2", seeds="SeedsB", max_replay=mr),
        dict(name="rev_A5", maxinstr=3, maxhist=2, ops="OpsA5", points="PtsD2", seeds="SeedsB", max_replay=mr),
        dict(name="rev_prod_square_reciprocal", maxinstr=3, maxhist=2, ops="OpsB1", points="PtsD2", seeds="SeedsB", max_replay=mr),
        dict(name="rev_broadcast_assignment", maxinstr=3, maxhist=2, ops="OpsB2", points="PtsD2", seeds="SeedsB", max_replay=mr),
        dict(name="rev_broadcast_assignment2", maxinstr=3, maxhist=2, ops="OpsB3", points="PtsD2", seeds="SeedsB", max_replay=mr),
        dict(name="rev_broadcast_assignment_buffered", maxinstr=2, maxhist=2, ops="OpsB2", points="PtsD2", seeds="SeedsB", prefix="buffered", max_replay=mr),
        dict(name="rev_complex_prod_square_reciprocal", module="MC_CTracer", maxinstr=2, maxhist=2, ops="OpsB1", points="PtsCx", seeds="SeedsCx", max_replay=mr),
        dict(name="rev_buffered", maxinstr=2 if q else 3, maxhist=2, ops="OpsRevP", points="PtsD2", seeds="SeedsB", prefix="buffered", max_replay=mr or 40000),
        dict(name="rev_P2", P=2, maxinstr=2, maxhist=2, ops="OpsCore", points="PtsP2D2", seeds="SeedsB", max_replay=mr),
    ]
    if not q:
        configs += [
            dict(name="rev_core4", maxinstr=4, maxhist=2, ops="OpsCore", points="PtsD2", seeds="SeedsB", max_replay=40000, timeout=1500),
        ]
    T.tracer_check(rep, configs, "C03")
    analytic_pullbacks(rep, tier, seed)
    T.full_api_adjoint(rep, seed, n=200 if q else 1500)
    T.validate_recorded(rep, "C03", repo_tests=False)
    T.self_test(rep)
    rep.parts["reverse_mode_not_implemented_raises"] = {"programs": sorted(T.UNSUPPORTED)}
    rep.assumptions += ["analytic functions: f^(k)(x0) from mpmath; full-API programs: J v from algopy's own forward mode (bound to the spec by C01/C02/C07/C08)"]
    return rep.finish("one case = (program, curve, seed) replayed through CGraph with exact expected adjoints; plus (function, base point, "
                      "coefficient pattern, seed pattern) for analytic pullbacks; plus random full-API programs with the dot-product identity; "
                      "non-trivial = >= 2 instructions and >= 1 sweep / non-zero higher coefficients")
