"""C02 Arithmetic is exact truncated power-series arithmetic for every operand mix.

Spec: UTPMachine (heap of UTPM / array objects with exact rational cells; Bin, BinA, BinS, IBin*, PowI, Unary with
NumPy broadcasting defined from the rule) over TPS.  M: TLC explores every behaviour of the bounded instance and checks
TypeOK / Frame / ViewSemantics; MC_TPS proves the ring laws, Div*Mul, constant embedding.  R: every behaviour is
replayed on real UTPM objects; after each action all objects (shape, values as exact rationals, memory sharing) are
compared with the spec state.
"""
import sys, os
from common import *
import utpm_replay as U


def run(rep, tier, seed):
    q = tier == "quick"
    configs = [
        dict(name="vec_D3_len1", D=3, P=1, pool="PoolVec2", acts="ActsArith", scal="ScalSet", maxlen=1),
        dict(name="vec_D2_len2", D=2, P=1, pool="PoolVec2", acts="ActsArith", maxlen=2),
        dict(name="bcastP_D2P2", D=2, P=2, pool="PoolBcastP", acts="ActsArith", scal="ScalSet", maxlen=1),
        dict(name="bcast_D3P2", D=3, P=2, pool="PoolBcast", acts="ActsArith", scal="ScalSet", maxlen=1),
        dict(name="scal_D3P2", D=3, P=2, pool="PoolScal", acts="ActsArith", maxlen=1 if q else 2),
        dict(name="mat_D2", D=2, P=1, pool="PoolMat", acts="ActsArith", maxlen=1 if q else 2),
        dict(name="scal_P3_lastaxis_equals_P", D=2, P=3, pool="PoolScal", acts="ActsArith", maxlen=1),
        dict(name="vec_D4", D=4, P=1, pool="PoolVec2", acts="ActsArith", maxlen=1),
        # views and in-place operators (x op= view(x), x op= x.T)
        dict(name="alias_D3", D=3, P=1, pool="PoolMat22", acts="ActsAlias", idx="IdxSmall", maxlen=2, maxobjs=5),
        # the complex instance of the specification (Gaussian rationals): real and complex polynomials, arrays and scalars mixed
        dict(name="complex_mix_P2", module="MC_CUTPM", D=2, P=2, pool="PoolCx1", acts="ActsArith", scal="ScalCx", maxlen=1),
        dict(name="complex_bcast", module="MC_CUTPM", D=3, P=2, pool="PoolCx2", acts="ActsArith", scal="ScalCx", maxlen=1),
    ]
    if not q:
        configs += [
            dict(name="vec_D3P2_len2", D=3, P=2, pool="PoolVec2", acts="ActsArith", scal="ScalSet", maxlen=2),
            dict(name="bcast_D2P2_len2", D=2, P=2, pool="PoolBcast", acts="ActsArith", maxlen=2),
            dict(name="bcastP_D2P2_len2", D=2, P=2, pool="PoolBcastP", acts="ActsBin", maxlen=2, maxobjs=6),
            dict(name="vec_D5", D=5, P=1, pool="PoolVec2", acts="ActsArith", scal="ScalSet", maxlen=1),
            dict(name="complex_len2", module="MC_CUTPM", D=2, P=1, pool="PoolCx1", acts="ActsArith", scal="ScalCx", maxlen=2, maxobjs=6),
            dict(name="vec_D2_sim_len4", D=2, P=1, pool="PoolVec2", acts="ActsArith", maxlen=4, maxobjs=7,
                 simulate=3000, depth=5),
        ]
    U.machine_check(rep, configs, "C02", variants=(0, 1) if q else (0, 1, 2))
    import subprocess
    if subprocess.run([sys.executable, os.path.join(VERIF, "tools", "gen_complex.py"), "--check"], stdout=subprocess.PIPE).returncode != 0:
        raise Machinery("spec/CTPS.tla, CUTPMachine.tla, MC_CUTPM.tla are out of date: run tools/gen_complex.py")
    U.dirty_out_check(rep, load_algopy(), ("add", "sub", "mul", "div", "neg"), seed)
    U.self_test(rep)
    rep.assumptions += ["coefficients on a rational grid (Gaussian rationals in the complex instance)",
                        "floats compared with exact rationals: |v-q| <= 1e-11 + 1e-9|q|"]
    return rep.finish("one case = one maximal behaviour (action sequence of the UTPMachine spec) x operand-kind variant "
                      "(python int/float, numpy scalar, int/float arrays); non-trivial = at least one action; distinct by "
                      "(config, behaviour, variant)")
