"""C15 Exact-interpolation coefficients reconstruct mixed partial derivatives.

M  : MC_Interp - the identity sum_j Gamma(i,j) ray_j^alpha = [i = alpha] for every (N,d) in bounds, in exact
     rational arithmetic, with MultiIdx defined as a set; |MultiIdx(N,d)| = C(N+d-1,d).
R  : every Gamma row computed by the spec is compared with algopy's generate_Gamma_and_rays; the index list
     of the implementation must be exactly the spec's set, without duplicates; rays = indices.
"""
import itertools, json
from fractions import Fraction
import numpy
from common import *

CFG = """CONSTANTS MaxN = %d
 MaxDeg = %d
 MaxCard = %d
 Emit = %s
INIT Init
NEXT Next
INVARIANT CardOK
INVARIANT IdentityOK
INVARIANT DiagOK
INVARIANT EmitRow
CHECK_DEADLOCK FALSE
"""


def parse_key(k):
    return tuple(int(x) for x in k.strip("<>").split(","))


def run(rep, tier, seed):
    from algopy import exact_interpolation as ei
    maxn, maxd, maxcard = (4, 6, 40) if tier == "quick" else (5, 6, 130)
    res = tlc_ok(run_tlc("MC_Interp", CFG % (maxn, maxd, maxcard, "TRUE"), workers=16, timeout=3000), "MC_Interp")
    rep.add_tlc(res, "MC_Interp")
    if not res.records:
        raise Machinery("MC_Interp emitted no rows")
    rows = {}
    for r in res.records:
        rows.setdefault((r["N"], r["d"]), {})[tuple(r["i"])] = {parse_key(k): to_frac(v) for k, v in r["row"].items()}
    for (N, d), spec in sorted(rows.items()):
        J = ei.generate_multi_indices(N, d)
        real_idx = [tuple(int(v) for v in row) for row in J]
        sig = "N=%d,d=%d" % (N, d)
        if len(set(real_idx)) != len(real_idx):
            rep.violation("multi_indices duplicates " + sig, {"N": N, "d": d, "indices": real_idx})
        if set(real_idx) != set(spec.keys()):
            rep.violation("multi_indices set " + sig, {"N": N, "d": d, "indices": real_idx,
                                                        "expected": sorted(spec.keys())})
            continue
        Gamma, rays = ei.generate_Gamma_and_rays(N, d)
        if rays.shape != J.shape or not (rays == J).all():
            rep.violation("rays " + sig, {"N": N, "d": d, "rays": rays.tolist()})
        scale = max(abs(float(v)) for row in spec.values() for v in row.values())
        bad = []
        for a, i in enumerate(real_idx):
            for b, j in enumerate(real_idx):
                rep.case((N, d, i, j), nontrivial=(spec[i][j] != 0))
                if abs(Gamma[a, b] - float(spec[i][j])) > 1e-10 * scale:
                    bad.append({"i": i, "j": j, "got": float(Gamma[a, b]), "expected": str(spec[i][j])})
        if bad:
            rep.violation("Gamma " + sig, {"N": N, "d": d, "mismatches": bad[:10]})
        # the identity itself on the implementation's matrix (exact V, float Gamma)
        V = numpy.array([[float(numpy.prod([Fraction(int(r[n])) ** int(al[n]) for n in range(N)])) for al in real_idx]
                         for r in rays])
        err = abs(Gamma @ V - numpy.eye(len(real_idx))).max()
        if err > 1e-8 * max(1.0, abs(V).max() * scale):
            rep.violation("identity " + sig, {"N": N, "d": d, "max_err": err})
        rep.replayed(len(real_idx))
        rep.sample({"N": N, "d": d, "i": real_idx[min(1, len(real_idx) - 1)],
                    "spec_row": {str(k): str(v) for k, v in spec[real_idx[min(1, len(real_idx) - 1)]].items()}})
    # beyond TLC's integer range (32-bit rationals overflow from d = 7 on): the defining identity of Interp.tla,
    # sum_j Gamma(i,j) ray_j^alpha = [i = alpha], evaluated on the implementation's Gamma with the exact integer matrix V;
    # the multi-index set by its definition (all N-tuples of naturals with sum d)
    for (N, d) in [(1, 7), (1, 8), (2, 7), (2, 8), (3, 7), (1, 9), (2, 9), (1, 10)]:
        sig = "N=%d,d=%d" % (N, d)
        J = ei.generate_multi_indices(N, d)
        real_idx = [tuple(int(v) for v in row) for row in J]
        want = set(t for t in itertools.product(range(d + 1), repeat=N) if sum(t) == d)
        rep.case((N, d, "identity beyond the TLC bound"), nontrivial=True)
        if len(set(real_idx)) != len(real_idx) or set(real_idx) != want:
            rep.violation("multi_indices set " + sig, {"N": N, "d": d, "indices": real_idx}); continue
        Gamma, rays = ei.generate_Gamma_and_rays(N, d)
        if rays.shape != J.shape or not (rays == J).all():
            rep.violation("rays " + sig, {"N": N, "d": d, "rays": rays.tolist()})
        V = numpy.array([[float(numpy.prod([Fraction(int(r[n])) ** int(al[n]) for n in range(N)])) for al in real_idx] for r in rays])
        # float Gamma: the rounding error of row i is bounded by eps * sum_j |Gamma_ij| |V_j alpha|
        bound = abs(Gamma) @ abs(V)
        err = abs(Gamma @ V - numpy.eye(len(real_idx)))
        if (err > 1e-9 * (1.0 + bound)).any():
            a, b = numpy.unravel_index(numpy.argmax(err / (1.0 + bound)), err.shape)
            rep.violation("identity " + sig, {"N": N, "d": d, "i": list(real_idx[a]), "alpha": list(real_idx[b]), "got": float((Gamma @ V)[a, b])})
        rep.replayed(len(real_idx))
    # call histories: the result for (N, d) must not depend on earlier calls with another seed matrix S; rays = J . S
    for (N, d) in [k for k in sorted(rows) if k[0] >= 2][:6]:
        G0, r0 = ei.generate_Gamma_and_rays(N, d)
        Sm = numpy.eye(N) + numpy.tri(N, k=-1) * 2 - numpy.tri(N, k=-1).T
        G1, r1 = ei.generate_Gamma_and_rays(N, d, S=Sm)
        J = ei.generate_multi_indices(N, d)
        rep.case((N, d, "history"), nontrivial=True)
        if not numpy.array_equal(r1, J @ Sm):
            rep.violation("rays with a seed matrix N=%d,d=%d" % (N, d), {"got": r1.tolist(), "expected": (J @ Sm).tolist()})
        G0c = G0.copy(); r0c = r0.copy()
        G0 *= 3.0; r0 += 1              # the caller edits what it got back
        G0, r0 = G0c, r0c
        G2, r2 = ei.generate_Gamma_and_rays(N, d)
        if not (numpy.array_equal(G2, G0) and numpy.array_equal(r2, r0)):
            rep.violation("result depends on an earlier call with another seed matrix N=%d,d=%d" % (N, d), {})
    # binding self-test: a corrupted expectation must be noticed
    (N, d), spec = sorted(rows.items())[-1]
    Gamma, _ = ei.generate_Gamma_and_rays(N, d)
    i0 = tuple(int(v) for v in ei.generate_multi_indices(N, d)[0])
    if abs(Gamma[0, 0] - float(spec[i0][i0] + Fraction(1, 1000))) <= 1e-10:
        raise Machinery("self-test: corrupted Gamma entry not detected")
    rep.assumptions += ["rays use the default seed matrix S = I", "float Gamma compared with exact rational to 1e-10*max|Gamma|"]
    return rep.finish("every (N,d) with N<=%d, d<=%d, C(N+d-1,d)<=%d: each (i,j) entry of Gamma is one case; "
                      "non-trivial = spec entry non-zero" % (maxn, maxd, maxcard),
                      {"exhaustive": True, "bounds": {"MaxN": maxn, "MaxDeg": maxd, "MaxCard": maxcard}})
