"""C12 Low-order coefficients do not depend on the truncation degree.

Spec: truncation theorems model-checked in MC_TPS (TruncLaw: Trunc(op(x..), D') = op(Trunc(x, D')..) for *, /,
composition; the C-matrix for D' is the leading block of the C-matrix for D).  In UTPMachine / LinAlg / Factor /
Tracer a coefficient of order d is defined from input coefficients of order <= d only, so the expectation for D' is the
truncation of the expectation for D.  R: (i) every TLC-generated behaviour of the machine at D = 3 (4) is re-run on the
inputs truncated to every D' < D and compared coefficient by coefficient; (ii) every elementary / special function is
evaluated at every D' <= D against the leading block of the spec's C-matrix; (iii) linear algebra, factorizations (incl.
repeated eigenvalues, whose block deflation depends on D), further operations and reverse sweeps are evaluated at D and at
every D' < D on truncated inputs / seeds and compared; D = 1 must reproduce the plain NumPy value.
"""
import random
import numpy
from common import *
import utpm_replay as U
import c01


def functions_truncated(rep, tier, seed):
    D = 5 if tier == "quick" else 7
    pats = c01.get_patterns(rep, D, "V5", 2 if tier == "quick" else 3, "trunc_D%d" % D)
    fns = []
    for c in c01.catalogue():
        fns.append(dict(name=c["name"], entries=c["entries"][:1], real=c["real"], cplx=c["cplx"],
                        F=lambda x0, n, c=c: c01.taylor_F(c["name"], c["mpf"], x0, n)))
    for Dp in range(1, D + 1):
        tp = [(x[:Dp], [row[:Dp] for row in C[:Dp]]) for (x, C) in pats]
        for fn in fns:
            c01.check_fn(rep, fn, tp, Dp, 2, 1, "vec", fn["real"], "real, D'=%d of %d" % (Dp, D))
            # every element and direction with first non-zero order >= m (degrees D' that are / are not multiples of m)
            for m in (2, 3):
                grp = [p_ for p_ in tp if not any(p_[0][1:m])]
                if grp and len(grp) < len(tp):
                    c01.check_fn(rep, fn, grp[:24], Dp, 2, 1, "vec", fn["real"], "real, leading order >= %d everywhere, D'=%d of %d" % (m, Dp, D))


def relational_ops(rep, seed):
    algopy = load_algopy()
    from algopy import UTPM
    rng = numpy.random.RandomState(seed % 2 ** 31)
    A0 = numpy.array([[3., 1., 0.5], [1., 4., 1.], [0.5, 1., 5.]])
    rep_l = numpy.diag([2., 2., 5.])
    ops = [
        ("inv", lambda x: algopy.inv(x + A0)), ("solve", lambda x: algopy.solve(x + A0, x.T)), ("det", lambda x: algopy.det(x + A0)),
        ("logdet", lambda x: algopy.logdet(algopy.dot(x, x.T) + A0)), ("dot", lambda x: algopy.dot(x, x.T)),
        ("qr_Q", lambda x: algopy.qr(x + A0)[0]), ("qr_R", lambda x: algopy.qr(x + A0)[1]), ("qr_full", lambda x: algopy.qr_full((x + A0)[:, :2])[1]),
        ("qr_wide", lambda x: algopy.qr((x + A0)[:2])[1]),
        ("cholesky", lambda x: algopy.cholesky(algopy.dot(x, x.T) + A0)), ("lu_U", lambda x: algopy.lu(x + A0)[2]),
        ("eigh_distinct", lambda x: algopy.eigh(x + x.T + numpy.diag([1., 5., 9.]))[0]),
        ("eigh_repeated", lambda x: algopy.eigh(sym0(x) + rep_l)[0]),
        ("eigh_repeated_Q_residual", lambda x: eigh_resid(algopy, sym0(x) + rep_l)),
        ("svd_s", lambda x: algopy.svd(x + numpy.diag([1., 5., 9.]))[1]), ("expm", lambda x: algopy.expm(x * 0.25)),
        ("prod", lambda x: algopy.prod(x[0] + 1.5)), ("max", lambda x: UTPM.max(x[0])), ("pow_real", lambda x: (x * x + 1.) ** 1.5),
        ("x_pow_y", lambda x: (x * x + 1.) ** x), ("rpow", lambda x: 2.0 ** x), ("div", lambda x: x / (x * x + 2.)),
        ("const_div", lambda x: 3.0 / (x * x + 2.)), ("imul_self", lambda x: imul_self(x)), ("idiv", lambda x: idiv(x)),
        ("div_tiny_divisor", lambda x: x / ((x * x + 2.) * 1e-170)), ("div_huge_divisor", lambda x: x / ((x * x + 2.) * 1e170)),
        ("sqrt_tiny", lambda x: algopy.sqrt((x * x + 2.) * 1e-200)), ("log_tiny", lambda x: algopy.log((x * x + 2.) * 1e-200)),
        ("x_pow_scalar_polynomial", lambda x: (x * x + 1.) ** sparse_exponent(x)),
        ("abs_sign", lambda x: algopy.absolute(x) * algopy.sign(x)), ("abs_at_zero", lambda x: abs(zero_some(x))),
        ("extract_jacobian", lambda x: wrap(UTPM.extract_jacobian(x * x + x))), ("extract_jac_vec", lambda x: wrap(UTPM.extract_jac_vec((x * x + x)[:, :1]))),
        ("extract_hessian", lambda x: wrap(UTPM.extract_hessian(3, fix6(x)))),
        ("outer", lambda x: algopy.outer(x[0], x[1])),
        ("fft_ifft", lambda x: algopy.real(algopy.fft.ifft(algopy.fft.fft(x) * 2.0))),
    ]

    def sym0(x):
        # symmetric perturbation with zero value at order 0: the repeated eigenvalue splits only at higher order
        s = x + x.T
        z = s.zeros_like(); z.data[1:] = s.data[1:]
        return z

    def eigh_resid(al, A):
        l, Q = al.eigh(A)
        return al.dot(A, Q) - al.dot(Q, al.diag(l))

    def sparse_exponent(x):
        # a 0-d polynomial exponent, different per direction, whose first-order coefficient is zero
        r = x[0, 0].clone(); r.data[0] = numpy.arange(1, r.data.shape[1] + 1) * 0.75
        if r.data.shape[0] > 1:
            r.data[1] = 0.0
        return r

    def zero_some(x):
        # zeroth coefficient exactly zero in some entries: the result may not depend on coefficients above the requested order
        y = x.clone(); y.data[0, :, 0, :] = 0.0; return y

    class wrap:
        # results of extract_* are plain arrays: present them as "data" whose leading axis is not a degree
        def __init__(self, a):
            self.plain = numpy.asarray(a)
        data = property(lambda self: self.plain)

    def fix6(x):
        # 6 directions as init_hessian(3) would produce; any scalar-valued function of them
        y = x.clone()
        z = UTPM(y.data.reshape(y.data.shape[0], -1)[:, :6 * y.data.shape[1]].reshape(y.data.shape[0], 6 * y.data.shape[1])[:, :6].copy())
        return z * z + z

    def imul_self(x):
        y = x.clone(); y *= y; return y

    def idiv(x):
        y = x.clone(); y /= (x * x + 2.); return y

    for it in range(3):
        D = 4 + it; P = 1 + it % 2
        for name, f in ops:
            data = rng.uniform(-1, 1, size=(D, P, 3, 3))
            rep.case(("relational", name, it), nontrivial=True); rep.replayed(1)
            try:
                fullr = f(UTPM(data.copy()))
                full = fullr.data
                plain = hasattr(fullr, "plain")
                for Dp in range(3 if plain else 1, D):
                    part = f(UTPM(data[:Dp].copy())).data
                    if plain:
                        # derivative information already present at D' >= 3 must not change when more coefficients are propagated
                        if part.shape != full.shape or not numpy.allclose(part, full, rtol=1e-9, atol=1e-11):
                            rep.violation("%s: result read from a D=%d propagation differs from the D=%d one" % (name, D, Dp), {"D": D, "Dp": Dp})
                            break
                        continue
                    tol = 1e-7 if name.startswith("eigh_repeated") else 1e-9
                    if part.shape != full[:Dp].shape or not numpy.allclose(part, full[:Dp], rtol=tol, atol=tol * 1e-2):
                        rep.violation("%s: coefficients < %d computed with D=%d differ from those computed with D=%d" % (name, Dp, D, Dp),
                                      {"D": D, "Dp": Dp, "P": P, "err": float(abs(part - full[:Dp]).max()) if part.shape == full[:Dp].shape else "shape"})
                        break
            except Exception as ex:
                rep.violation("%s raises %s" % (name, type(ex).__name__), {"what": repr(ex)[-300:], "D": D})
    # reverse sweep: adjoint coefficients of order < D' do not depend on D
    for it in range(8):
        D = 3 + it % 2; P = 1 + it % 2
        cg = algopy.CGraph()
        x = algopy.Function(numpy.array([0.5, 1.5, 2.5]))
        buf = algopy.zeros(2, dtype=x)
        buf[0] = x[0] * x[1]; buf[1] = algopy.sin(x[2]) * x[0] + algopy.exp(buf[0] * 0.1)
        y = algopy.sum(buf * x[:2]) + algopy.special.erf(x[1]) * algopy.sqrt(x[2]) / x[0] + algopy.square(algopy.tan(x[0] * 0.3))
        cg.trace_off(); cg.independentFunctionList = [x]; cg.dependentFunctionList = [y]
        data = rng.uniform(0.3, 1.5, size=(D, P, 3)); ybar = rng.uniform(-1, 1, size=(D, P))
        if it % 3 == 0:
            ybar[0] = 0.0        # a seed whose zeroth coefficient vanishes
        if it % 4 == 1:
            ybar[1] = 0.0
        rep.case(("relational", "reverse sweep", it), nontrivial=True); rep.replayed(1)
        try:
            cg.pushforward([UTPM(data.copy())]); cg.pullback([UTPM(ybar.copy())]); xb = x.xbar.data.copy()
            for Dp in range(1, D):
                cg.pushforward([UTPM(data[:Dp].copy())]); cg.pullback([UTPM(ybar[:Dp].copy())])
                if not numpy.allclose(x.xbar.data, xb[:Dp], rtol=1e-9, atol=1e-11):
                    rep.violation("reverse sweep: adjoint coefficients < %d depend on the degree" % Dp, {"D": D, "Dp": Dp, "P": P, "seed_zero_order": int(it % 3 == 0)})
                    break
        except Exception as ex:
            rep.violation("reverse sweep raises %s" % type(ex).__name__, {"what": repr(ex)[-300:]})


def piecewise_truncated(rep, seed, rounds):
    """functions that select a branch per element (maximum, minimum, max, absolute, sign, comparisons, floor division):
    coefficients drawn from {-1, 0, 1}, so that ties of the zeroth coefficients, ties continued at order 1, 2, .. and
    elements without any tie occur together in one argument; the branch is decided by what NumPy decides on the zeroth
    coefficients, whatever the degree: D' = 1 is the NumPy value and coefficients < D' do not change with D"""
    algopy = load_algopy()
    from algopy import UTPM
    rng = numpy.random.RandomState((seed + 11) % 2 ** 31)
    ops = [("maximum", lambda x, y: algopy.maximum(x, y), numpy.maximum), ("minimum", lambda x, y: algopy.minimum(x, y), numpy.minimum),
           ("maximum(x, 0)", lambda x, y: algopy.maximum(x, x.zeros_like()), lambda a, b: numpy.maximum(a, 0 * a)),
           ("minimum(x, 0)", lambda x, y: algopy.minimum(x, x.zeros_like()), lambda a, b: numpy.minimum(a, 0 * a)),
           ("max", lambda x, y: UTPM.max(x), lambda a, b: numpy.max(a)),
           ("absolute", lambda x, y: algopy.absolute(x), lambda a, b: numpy.absolute(a)),
           ("sign", lambda x, y: algopy.sign(x), lambda a, b: numpy.sign(a)),
           ("botched_clip", lambda x, y: algopy.special.botched_clip(-0.5, 0.5, x), lambda a, b: numpy.clip(a, -0.5, 0.5)),
           ("x < y", lambda x, y: x < y, lambda a, b: bool((a < b).all())), ("x >= y", lambda x, y: x >= y, lambda a, b: bool((a >= b).all()))]
    for it in range(rounds):
        D = 3 + it % 3; P = 1 + it % 2
        shp = [(4,), (5,), (3,)][it % 3]
        xd = rng.randint(-1, 2, size=(D, P) + shp).astype(float)
        yd = rng.randint(-1, 2, size=(D, P) + shp).astype(float)
        if it % 2 == 0:
            # the documented shape of the problem: one element with an exact tie, the others decided at order 0 but with equal
            # (zero) first-order coefficients
            xd[0, :, 0] = yd[0, :, 0]
            xd[1, :, 1:] = 0.0; yd[1, :, 1:] = 0.0
            xd[0, :, 1] = -1.0; yd[0, :, 1] = 1.0
            xd[0, :, 2] = 1.0; yd[0, :, 2] = -1.0
        for name, f, npf in ops:
            rep.case(("piecewise", name, it), nontrivial=True); rep.replayed(1)
            try:
                full = f(UTPM(xd.copy()), UTPM(yd.copy()))
                for Dp in range(1, D):
                    part = f(UTPM(xd[:Dp].copy()), UTPM(yd[:Dp].copy()))
                    if isinstance(full, (bool, numpy.bool_)) or isinstance(part, (bool, numpy.bool_)):
                        if bool(part) != bool(full):
                            rep.violation("%s: truth value computed with D=%d differs from the one computed with D=%d" % (name, D, Dp), {"D": D, "Dp": Dp, "P": P}); break
                        continue
                    if part.data.shape != full.data[:Dp].shape or not numpy.allclose(part.data, full.data[:Dp], rtol=1e-12, atol=1e-13, equal_nan=True):
                        rep.violation("%s: coefficients < %d computed with D=%d differ from those computed with D=%d" % (name, Dp, D, Dp),
                                      {"D": D, "Dp": Dp, "P": P, "x0": xd[0].tolist(), "y0": yd[0].tolist()}); break
                # D' = 1 reproduces NumPy on the zeroth coefficients, direction by direction
                one = f(UTPM(xd[:1].copy()), UTPM(yd[:1].copy()))
                if name not in ("botched_clip",) and not isinstance(one, (bool, numpy.bool_)):
                    for p in range(P):
                        ref = numpy.asarray(npf(xd[0, p], yd[0, p]), dtype=float)
                        if one.data[0, p].shape != ref.shape or not numpy.allclose(one.data[0, p], ref, equal_nan=True):
                            rep.violation("%s: D=1 differs from NumPy on the zeroth coefficients" % name, {"P": P, "dir": p, "x0": xd[0, p].tolist(), "y0": yd[0, p].tolist()}); break
            except Exception as ex:
                rep.violation("%s raises %s" % (name, type(ex).__name__), {"what": repr(ex)[-300:], "D": D, "P": P})


def reverse_truncation(rep, seed, rounds):
    """reverse mode over the whole differentiable API: adjoint coefficients of order < D' computed at degree D equal those
    computed from inputs and seed truncated to D' (programs shared with C03)"""
    import tracer_replay as T
    algopy = load_algopy()
    from algopy import UTPM
    rng = numpy.random.RandomState((seed + 5) % 2 ** 31)
    for rnd_ in range(rounds):
        for name, f in T.adjoint_programs(algopy):
            if name == "eig_values":
                continue            # documented: first-order polynomials only
            D = 3 + (rnd_ % 2); P = 1 + ((rnd_ // 2) % 2)
            x = rng.uniform(0.3, 1.3, size=(D, P, 4)); x[1:] *= 0.7
            rep.case(("reverse truncation", name, rnd_), nontrivial=True); rep.replayed(1)
            try:
                cg = algopy.CGraph()
                fx = algopy.Function(UTPM(x.copy()))
                fy = f(fx)
                cg.trace_off(); cg.independentFunctionList = [fx]; cg.dependentFunctionList = [fy]
                ybar = rng.uniform(-1, 1, size=fy.x.data.shape)
                cg.pullback([UTPM(ybar.copy())])
                full = fx.xbar.data.copy()
                for Dp in range(1, D):
                    cg.pushforward([UTPM(x[:Dp].copy())]); cg.pullback([UTPM(ybar[:Dp].copy())])
                    part = fx.xbar.data
                    if part.shape != full[:Dp].shape or not numpy.allclose(part, full[:Dp], rtol=1e-8, atol=1e-10):
                        rep.violation("reverse sweep [%s]: adjoint coefficients < %d computed at D=%d differ from those computed at D=%d" % (name, Dp, D, Dp),
                                      {"D": D, "Dp": Dp, "P": P, "err": float(abs(part - full[:Dp]).max()) if part.shape == full[:Dp].shape else "shape"})
                        break
            except NotImplementedError:
                pass                # documented restriction (explicit exception), reported by C03
            except Exception as ex:
                if "NotImplementedError" not in repr(ex):
                    rep.violation("reverse sweep [%s] raises %s" % (name, type(ex).__name__), {"what": repr(ex)[-300:]})


def run(rep, tier, seed):
    q = tier == "quick"
    lim = 1500 if q else 20000
    configs = [
        dict(name="arith_D3", D=3, P=1, pool="PoolVec2", acts="ActsArith", scal="ScalSet", maxlen=1 if q else 2),
        dict(name="arith_D4", D=4, P=1, pool="PoolScal", acts="ActsArith", maxlen=1),
        dict(name="all_D3_len2", D=3, P=2, pool="PoolVec2", acts="ActsAll", idx="IdxSmall", scal="ScalOne", rs="NoRs", maxlen=2, maxobjs=5),
        dict(name="shape_D3", D=3, P=1, pool="PoolMat", acts="ActsShape", idx="IdxSmall", rs="RsCat", maxlen=1, maxobjs=6),
    ]
    U.relational_check(rep, configs, "trunc", limit=lim)
    # data-dependent branches: a comparison is decided by the zeroth coefficients whatever the degree (exact replay at D = 3)
    U.machine_check(rep, [dict(name="cmp_bcast_D3", D=3, P=2, pool="PoolBcast", acts="ActsCmp", maxlen=2, cmps="CmpSet")], "C12")
    functions_truncated(rep, tier, seed)
    relational_ops(rep, seed)
    piecewise_truncated(rep, seed, 24 if q else 200)
    reverse_truncation(rep, seed, 2 if q else 8)
    return rep.finish("cases: every TLC-generated behaviour at D re-run at every D' < D; every function x coefficient pattern at every D' <= D "
                      "against the leading block of the C-matrix; 28 operations, factorizations and reverse sweeps at D vs D' < D; "
                      "non-trivial = D' >= 1 with at least one action")
