"""C06 Results are independent of call history.

Spec: Tracer histories over {pushforward at (point, D, kind), pullback with seed, every driver, unrelated graph in
between}.  M: ReplayIsProgram / ForwardValuesStable / AdjointCorrect / DriverCorrect are evaluated after EVERY call of
EVERY history: each result must equal the reference of that call's arguments (fresh execution of the program).  With
the deviation switches RefreshStore / RollForward = FALSE (the code before the fix: commits) TLC exhibits the
counterexamples Fwd;Pb;Pb.  R: every history replayed, every return value compared, the dependent's forward value
digested before/after each reverse sweep.
"""
from common import *
import tracer_replay as T


def run(rep, tier, seed):
    q = tier == "quick"
    mr = 2500 if q else None
    configs = [
        dict(name="hist_real_complex_alternating", module="MC_CTracer", maxinstr=2, maxhist=3, ops="OpsCore", points="PtsMix", seeds="SeedsB", max_replay=mr or 30000),
        dict(name="overwritten_complex_after_real", module="MC_CTracer", maxinstr=1, maxhist=3, ops="OpsRevP", points="PtsMix", seeds="SeedsB", prefix="overwritten", max_replay=6000),
        dict(name="overwritten_real", maxinstr=1, maxhist=3, ops="OpsRevP", points="PtsP1small", seeds="SeedsB", prefix="overwritten", max_replay=6000),
        dict(name="hist_two_independents", maxinstr=2, maxhist=3, ops="OpsTwo", points="PtsTwo", seeds="SeedsB", prefix="two", NI=2, max_replay=mr or 30000),
        dict(name="hist3", maxinstr=2 if q else 3, maxhist=3, ops="OpsHist", points="PtsP1small", seeds="SeedsA", max_replay=mr or 30000),
        dict(name="hist_drv", maxinstr=2, maxhist=3, ops="OpsDrvO", points="PtsOne", seeds="SeedsB", max_replay=mr or 30000),
        dict(name="hist_drv_two_points", maxinstr=1, maxhist=3, ops="OpsDrvX", points="NoPts", seeds="NoSeeds", drvx="XCat", max_replay=40000),   # (all of them: a driver that remembers its last point shows in 10 of 28512 histories)
        dict(name="other_while_recording", maxinstr=3, maxhist=2, ops="OpsOtherRec", points="PtsP1small", seeds="SeedsB", max_replay=mr or 30000),
        dict(name="hist_seta", maxinstr=2, maxhist=3, ops="OpsH3", points="PtsP1small", seeds="SeedsB", max_replay=mr or 30000),
        dict(name="hist_broadcast_assignment", maxinstr=2, maxhist=3, ops="OpsB2", points="PtsP1small", seeds="SeedsB", max_replay=mr or 30000),
        dict(name="hist_prod_square_reciprocal", maxinstr=2, maxhist=3, ops="OpsB1", points="PtsD2b", seeds="SeedsB", max_replay=mr or 30000),
        dict(name="hist_pullback_after_driver_buffered", maxinstr=1, maxhist=3, ops="OpsDrvPb", points="NoPts", seeds="SeedsB", prefix="buffered", max_replay=mr or 30000),
        dict(name="hist_pullback_after_driver_overwritten", maxinstr=1, maxhist=2, ops="OpsDrvPb", points="NoPts", seeds="SeedsB", prefix="overwritten", max_replay=mr or 30000),
        dict(name="hist_pullback_after_driver", maxinstr=2, maxhist=2, ops="OpsDrvPb2", points="PtsOne", seeds="SeedsB", max_replay=mr or 30000),
        dict(name="hist_div", maxinstr=2 if q else 3, maxhist=3, ops="OpsH2", points="PtsD2b", seeds="SeedsB", max_replay=mr or 30000),
    ]
    if not q:
        configs += [
            dict(name="hist4", maxinstr=3, maxhist=4, ops="OpsCore", points="PtsP1small", seeds="SeedsB", max_replay=30000),
            dict(name="hist_P2", P=2, maxinstr=2, maxhist=3, ops="OpsCore", points="PtsP2", seeds="SeedsA", max_replay=30000),
        ]
    T.tracer_check(rep, configs, "C06", nontrivial=lambda h: sum(1 for e in h if e["c"] in ("fwd", "pb", "drv", "other")) >= 2)
    # the design property ResultsStable is not vacuous: with the deviation switch FreshBars = FALSE (adjoint buffers cleared and
    # reused by the next sweep) TLC must exhibit the counterexample Pb;Pb
    dev = run_tlc("MC_Tracer", T.cfg(maxinstr=1, maxhist=2, ops="OpsCore", points="PtsP1small", seeds="SeedsA", freshbars=False, emit=False),
                  workers=8, timeout=600, parse_json=False)
    if dev.violated != "ResultsStable":
        raise Machinery("deviation FreshBars=FALSE: expected a counterexample to ResultsStable, TLC says %r %s" % (dev.violated, (dev.error or "")[:200]))
    rep.add_tlc(dev, "deviation_FreshBars_FALSE (counterexample expected and found)")
    T.full_api_histories(rep, seed, n=60 if q else 400)
    T.dtype_histories(rep, seed)
    T.validate_recorded(rep, "C06", repo_tests=False)
    T.self_test(rep)
    return rep.finish("one case = (program, history of calls); non-trivial = history with >= 2 calls; distinct by (config, behaviour); "
                      "plus randomly generated full-API programs (tan, sqrt, exp, dot, inv, qr ...) with two reverse sweeps after one forward")
