"""T: traces recorded from the real code (probe) validated against spec/TraceTracer.tla, a whole batch per TLC run."""
import os, sys, json, subprocess, tempfile, shutil, re
from common import *

CFG = """INIT Init
NEXT Next
INVARIANT Mark
POSTCONDITION Post
CHECK_DEADLOCK FALSE
"""


def record_repo_tests(paths=("algopy/tracer/tests", "algopy/tests/test_examples.py", "algopy/tests/test_linalg.py")):
    """run tests of the repository under the probe, one trace per test"""
    tmp = tempfile.mkdtemp(prefix="verif_tr_")
    try:
        out = os.path.join(tmp, "tr.json")
        env = dict(os.environ, ALGOPY_VERIF_PROBE="1", ALGOPY_VERIF_TRACE_OUT=out, PYTHONPATH=os.path.join(VERIF, "harness"))
        p = subprocess.run([sys.executable, "-W", "ignore", "-m", "pytest", "-q", "-p", "no:cacheprovider", "-p", "verif_probe_plugin"] + list(paths),
                           cwd=REPO, env=env, stdout=subprocess.PIPE, stderr=subprocess.STDOUT, text=True, timeout=1200)
        if not os.path.exists(out):
            raise Machinery("recording the repository's tests under the probe failed:\n" + p.stdout[-800:])
        tr = json.load(open(out))
        import algopy  # noqa  (already loaded from REPO by the caller)
        return tr
    finally:
        shutil.rmtree(tmp, ignore_errors=True)


def validate(traces, tag="batch"):
    """traces: list of event lists.  returns (set of rejected indices (0-based), TLCResult)"""
    if not traces:
        raise Machinery("no traces to validate")
    tmp = tempfile.mkdtemp(prefix="verif_tv_")
    try:
        f = os.path.join(tmp, "traces.json")
        json.dump(traces, open(f, "w"))
        res = run_tlc("TraceTracer", CFG, workers=1, timeout=1200, env={"TRACE_FILE": f}, parse_json=False)
        rej = set()
        i = res.out.find('"REJECTED"')
        if i >= 0:
            # TLC pretty-prints a long set over many lines: take every integer up to the closing >>
            j = res.out.find(">>", i)
            rej = {int(x) - 1 for x in re.findall(r"\d+", res.out[i + len('"REJECTED"'):j if j > 0 else None])}
        elif res.violated or res.error:
            raise Machinery("trace validation failed to run (%s):\n%s" % (tag, res.out[-1500:]))
        return rej, res
    finally:
        shutil.rmtree(tmp, ignore_errors=True)


def first_unmatched(events):
    """index of the first event the specification cannot match (a single-trace run; the search depth is the matched prefix)"""
    rej, res = validate([events], "single")
    return max(res.depth - 1, 0) if rej else None


def check_traces(rep, named_traces, what):
    """named_traces: list of (name, events).  Rejections become violations with the first unmatched event."""
    evs = [e for _, e in named_traces]
    rej, res = validate(evs, what)
    rep.add_tlc(res, "TraceTracer_" + what)
    rep.replayed(len(evs))
    for i, (name, e) in enumerate(named_traces):
        rep.case(("trace", what, name), nontrivial=len(e) >= 5)
    for n_, i in enumerate(sorted(rej)):
        name, e = named_traces[i]
        k = first_unmatched(e) if n_ < 5 else None
        ev = e[k] if k is not None and k < len(e) else None
        clause = ev["ev"] if ev else "?"
        rep.violation("trace rejected at %s [%s]" % (clause, what), {"trace": name, "first_unmatched_index": k, "event": ev,
                                                                        "previous_events": e[max(0, (k or 0) - 3):(k or 0)]})
    check_traces.accepted = [nt for i, nt in enumerate(named_traces) if i not in rej]
    return len(evs) - len(rej)


def self_test(named_traces):
    """a corrupted field / a removed event must be rejected (uses a trace the specification accepts; when the tree under
    test is so broken that none is accepted the violations have been reported already and there is nothing to self-test)"""
    cand = [(n, e) for n, e in named_traces if sum(1 for x in e if x["ev"] == "PbNode") >= 3]
    if not cand:
        return
    name, e = cand[0]
    bad1 = json.loads(json.dumps(e))
    i = next(i for i, x in enumerate(bad1) if x["ev"] == "Create" and x["id"] >= 1)
    bad1[i]["id"] += 1
    bad2 = [x for j, x in enumerate(e) if not (x["ev"] == "PbNode" and j == max(k for k, y in enumerate(e) if y["ev"] == "PbNode"))]
    bad3 = json.loads(json.dumps(e))
    j = next(i for i, x in enumerate(bad3) if x["ev"] == "PbEnd")
    bad3[j]["dig"] = [d + 1 for d in bad3[j]["dig"]]
    rej, _ = validate([e, bad1, bad2, bad3], "self-test")
    if rej != {1, 2, 3}:
        raise Machinery("trace-validation self-test: rejected %s, expected {1,2,3}" % sorted(rej))
