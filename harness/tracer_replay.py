"""Replay of Tracer behaviours (spec -> code): record the program through real Function nodes, make the calls,
compare every value the spec predicts: node values while recording, graph structure (ids, argument ids, recording
on/off), forward values, adjoints, driver results."""
import json, operator
import numpy
from common import *

NONE = 99
OPS = {"add": operator.add, "sub": operator.sub, "mul": operator.mul, "div": operator.truediv}

CFG = """CONSTANTS N = {N}
 P = {P}
 NI = {NI}
 MaxInstr = {maxinstr}
 MaxHist = {maxhist}
 Points <- {points}
 Seeds <- {seeds}
 Ops <- {ops}
 RefreshStore = {refresh}
 RollForward = {rollfwd}
 SetPbViaTemp = {viatemp}
 FreshBars = {freshbars}
 MaxAbs = 5000
 Prefix = "{prefix}"
 DrvX <- {drvx}
 DrvV <- {drvv}
 DrvW <- {drvw}
 Emit = {emit}
SPECIFICATION Spec
INVARIANT ReplayIsProgram
INVARIANT ForwardValuesStable
INVARIANT AdjointCorrect
INVARIANT DriverCorrect
INVARIANT ResultsStable
INVARIANT EmitState
PROPERTY RecordOnce
CONSTRAINT Small
CHECK_DEADLOCK FALSE
"""


def cfg(N=2, P=1, maxinstr=3, maxhist=2, points="PtsP1small", seeds="SeedsB", ops="OpsCore", refresh=True,
        rollfwd=True, viatemp=True, drvx="XOne", drvv="VOne", drvw="WOne", emit=True, prefix="plain", NI=1, freshbars=True):
    b = lambda x: "TRUE" if x else "FALSE"
    return CFG.format(N=N, P=P, NI=NI, maxinstr=maxinstr, maxhist=maxhist, points=points, seeds=seeds, ops=ops,
                      refresh=b(refresh), rollfwd=b(rollfwd), viatemp=b(viatemp), prefix=prefix, drvx=drvx, drvv=drvv, drvw=drvw,
                      emit=b(emit), freshbars=b(freshbars))


class Mismatch(Exception):
    def __init__(self, clause, info):
        self.clause = clause; self.info = info


def ser(s):
    return [to_num(q) for q in s]          # float, or complex in the Gaussian-rational instance


def _dtype_of(*seqs):
    return complex if any(isinstance(v, complex) for s_ in seqs for v in s_) else float


def pt_to_utpm(algopy, pt, lo=0, n=None):
    """pt.x[p][lo + j] = series  ->  UTPM data (D, P, n)"""
    D = pt["D"]; x = pt["x"]; P = len(x); N = len(x[0]) - lo if n is None else n
    vals = {(p, j): ser(x[p][lo + j]) for p in range(P) for j in range(N)}
    data = numpy.zeros((D, P, N), dtype=_dtype_of(*vals.values()))
    for (p, j), v in vals.items():
        data[:, p, j] = v
    return algopy.UTPM(data)


def check_val(real, spec, what):
    """spec: list over cells of list over p of series;  real: UTPM / ndarray / scalar"""
    ncell = len(spec)
    if type(real).__name__ == "UTPM":
        d = real.data
        D, P = d.shape[:2]
        flat = d.reshape(D, P, -1)
        if flat.shape[2] != ncell:
            raise Mismatch("shape", "%s: %d cells, spec %d" % (what, flat.shape[2], ncell))
        for i in range(ncell):
            if len(spec[i]) != P:
                raise Mismatch("directions", "%s: P=%d, spec %d" % (what, P, len(spec[i])))
            for p in range(P):
                s = spec[i][p]
                if len(s) != D:
                    raise Mismatch("degree", "%s: D=%d, spec %d" % (what, D, len(s)))
                for dd in range(D):
                    if not close(flat[dd, p, i], to_frac(s[dd])):
                        raise Mismatch("value", "%s cell %d dir %d order %d: got %r, spec %s" % (what, i, p, dd, flat[dd, p, i], to_frac(s[dd])))
    else:
        a = numpy.asarray(real).reshape(-1)
        if a.shape[0] != ncell:
            raise Mismatch("shape", "%s: %d cells, spec %d" % (what, a.shape[0], ncell))
        for i in range(ncell):
            if not close(a[i], to_frac(spec[i][0][0])):
                raise Mismatch("value", "%s cell %d: got %r, spec %s" % (what, i, a[i], to_frac(spec[i][0][0])))


class TracerReplayer:
    def __init__(self, algopy, hist, N, P, rec_kind="U", prefix="plain"):
        self.al = algopy; self.hist = hist; self.N = N; self.P = P; self.prefix = prefix
        self.rec_kind = rec_kind
        self.nodes = []          # python objects per spec node (Function or None)
        self.recd = []
        self.cg = None
        self.last_kind = "U"

    # ---- recording
    def hold(self, arr, label):
        """a result handed to the caller: it must keep its value whatever is called later (C06: results are values)"""
        a = arr.data if type(arr).__name__ == "UTPM" else arr
        if isinstance(a, numpy.ndarray):
            self.held.append((a, a.copy(), label))

    def check_held(self):
        for a, keep, label in self.held:
            if a.shape != keep.shape or not numpy.array_equal(a, keep, equal_nan=True):
                raise Mismatch("earlier-result-changed", "the %s returned earlier has been overwritten by this call" % label)

    def start(self, recpt):
        self.held = []
        al = self.al
        # an unrelated graph, completed BEFORE the graph under test starts recording (evaluated later by "other_rec")
        self.cgO = al.CGraph()
        zO = al.Function(numpy.array([0.5, 1.5, 2.5]))
        wO = al.sum(zO * zO * 3.0)
        self.cgO.trace_off()
        self.cgO.independentFunctionList = [zO]; self.cgO.dependentFunctionList = [wO]
        self.cg = al.CGraph()
        if self.rec_kind == "U":
            x0 = pt_to_utpm(al, recpt, 0, self.N)
        elif self.rec_kind == "V":
            # recorded with a polynomial of another degree and direction count (D=3, P=2) than any later evaluation
            base = pt_to_utpm(al, recpt, 0, self.N).data[0, 0]
            d = numpy.zeros((3, 2, self.N))
            d[0, :] = base
            d[1, 0] = 1.0; d[1, 1] = -2.0; d[2, 0] = 0.5; d[2, 1] = 3.0
            x0 = al.UTPM(d)
        else:
            x0 = numpy.array([ser(recpt["x"][0][j])[0] for j in range(self.N)])
        x = al.Function(x0)
        buf = al.zeros(self.N, dtype=x)
        self.nodes = [x, buf]; self.recd = [True, True]
        self.graph_nodes = [x, buf]
        self.check_graph()
        self.z = None
        if self.prefix == "two":
            # an operation on x is recorded, THEN the second independent z is wrapped (its node is not among the first ones)
            self.rec({"ins": {"op": "get", "a": 1, "b": 0, "i": 1}, "on": True, "v": []}, 0)
            if self.rec_kind == "U":
                z0 = pt_to_utpm(al, recpt, self.N, self.N)
            elif self.rec_kind == "V":
                dz = numpy.zeros((3, 2, self.N)); dz[0, :] = pt_to_utpm(al, recpt, self.N, self.N).data[0, 0]; dz[1, 0] = -1.0; dz[2, 1] = 2.0
                z0 = al.UTPM(dz)
            else:
                z0 = numpy.array([ser(recpt["x"][0][self.N + j])[0] for j in range(self.N)])
            self.z = al.Function(z0)
            self.nodes.append(self.z); self.recd.append(True); self.graph_nodes.append(self.z)
            self.check_graph()
        if self.prefix in ("buffered", "overwritten"):
            for ins in ({"op": "get", "a": 1, "b": 0, "i": 1}, {"op": "get", "a": 1, "b": 0, "i": 2},
                        {"op": "set", "a": 2, "b": 3, "i": 1}, {"op": "get", "a": 2, "b": 0, "i": 1}):
                self.rec({"ins": ins, "on": True, "v": []}, 0)
        if self.prefix == "overwritten":
            for ins in ({"op": "mul", "a": 6, "b": 6, "i": 0}, {"op": "set", "a": 2, "b": 7, "i": 1}):
                self.rec({"ins": ins, "on": True, "v": []}, 0)

    def check_graph(self):
        """C05: functionList = the recorded nodes in order; ID = position; arguments are earlier nodes"""
        fl = self.cg.functionList
        want = self.graph_nodes
        if len(fl) != len(want) or self.cg.functionCount != len(want):
            raise Mismatch("record-count", "functionList has %d nodes, spec %d" % (len(fl), len(want)))
        for k, (f, w) in enumerate(zip(fl, want)):
            if f is not w:
                raise Mismatch("record-order", "functionList[%d] is not the node created by instruction %d" % (k, k))
            if f.ID != k:
                raise Mismatch("record-id", "functionList[%d].ID = %s" % (k, f.ID))
            for a in f.args:
                if isinstance(a, self.al.Function) and a is not f:
                    if a not in fl[:k]:
                        raise Mismatch("record-operands", "node %d has an operand that is not an earlier node of the graph" % k)

    def rec(self, e, n_before):
        al = self.al
        ins = e["ins"]; op = ins["op"]
        X = self.nodes
        a = ins["a"] - 1; b = ins["b"] - 1
        if op == "get":
            r = X[a][ins["i"] - 1]
        elif op == "rev":
            r = X[a][::-1]
        elif op == "set":
            nbefore = len(self.cg.functionList)
            X[a][ins["i"] - 1] = X[b]
            r = None
            fl = self.cg.functionList
            if e["on"] and len(fl) == nbefore + 1 and fl[-1].func is operator.setitem:
                self.graph_nodes.append(fl[-1])
            elif e["on"]:
                raise Mismatch("record-count", "item assignment recorded %d nodes" % (len(fl) - nbefore))
        elif op == "seta":
            nbefore = len(self.cg.functionList)
            X[a][...] = X[b]
            r = None
            fl = self.cg.functionList
            if e["on"] and len(fl) == nbefore + 1 and fl[-1].func is operator.setitem:
                self.graph_nodes.append(fl[-1])
            elif e["on"]:
                raise Mismatch("record-count", "item assignment recorded %d nodes" % (len(fl) - nbefore))
        elif op == "dot":
            r = al.dot(X[a], X[b])
        elif op in OPS:
            r = OPS[op](X[a], X[b])
        elif op == "neg":
            r = -X[a]
        elif op == "pow":
            r = X[a] ** int(ins["n"])
        elif op == "sum":
            r = al.sum(X[a])
        elif op == "prod":
            r = al.prod(X[a])
        elif op == "sq":
            r = al.square(X[a])
        elif op == "recip":
            r = al.reciprocal(X[a])
        elif op == "const":
            r = al.Function(float(to_frac(ins["c"])))
        else:
            raise Machinery("unknown instruction " + op)
        self.nodes.append(r); self.recd.append(bool(e["on"]))
        if op not in ("set", "seta") and e["on"]:
            self.graph_nodes.append(r)
        self.check_graph()
        if r is not None and e["v"] and self.rec_kind == "U":
            check_val(r.x, e["v"], "value of node %d while recording" % len(self.nodes))
        if op in ("set", "seta") and not e["on"]:
            raise Machinery("spec generated an in-place write while recording is off")

    def stop(self):
        self.cg.trace_off()
        if self.z is None:
            self.cg.independentFunctionList = [self.nodes[0]]
        else:
            # the order in which the independents are listed is the caller's choice
            self.zx = (len(self.hist) % 2 == 1)
            self.cg.independentFunctionList = [self.z, self.nodes[0]] if self.zx else [self.nodes[0], self.z]
        self.cg.dependentFunctionList = [self.nodes[-1]]
        self.dep = self.nodes[-1]
        self.snapshot = self.dep_digest()

    # ---- calls
    def fwd(self, e):
        al = self.al
        pt = e["pt"]
        if e["kind"] == "U":
            x = pt_to_utpm(al, pt, 0, self.N)
            keep = x.data.copy()
        else:
            x = numpy.array([ser(pt["x"][0][j])[0] for j in range(self.N)])
            keep = x.copy()
        if self.z is None:
            self.cg.pushforward([x])
        else:
            z = pt_to_utpm(al, pt, self.N, self.N) if e["kind"] == "U" else numpy.array([ser(pt["x"][0][self.N + j])[0] for j in range(self.N)])
            self.cg.pushforward([z, x] if self.zx else [x, z])
        self.last_kind = e["kind"]
        check_val(self.dep.x, e["ret"], "dependent after pushforward")
        if not numpy.array_equal(keep, x.data if e["kind"] == "U" else x):
            raise Mismatch("user-input-modified", "pushforward changed the caller's input object")
        self.check_held()
        self.snapshot = self.dep_digest()

    def dep_digest(self):
        x = self.dep.x
        return numpy.array(x.data if type(x).__name__ == "UTPM" else x).copy()

    def pb(self, e):
        al = self.al
        yb = e["ybar"]            # over cells, over p, series
        ncell = len(yb); P = len(yb[0]); D = len(yb[0][0])
        vals = {(i, p): ser(yb[i][p]) for i in range(ncell) for p in range(P)}
        data = numpy.zeros((D, P, ncell), dtype=_dtype_of(*vals.values()))
        for (i, p), v in vals.items():
            data[:, p, i] = v
        depshape = self.dep.x.data.shape
        ybar = al.UTPM(data.reshape(depshape).copy())
        keep = ybar.data.copy()
        self.cg.pullback([ybar])
        if self.z is None:
            check_val(self.nodes[0].xbar, e["ret"], "xbar after pullback")
        else:
            check_val(self.nodes[0].xbar, e["ret"][:self.N], "xbar of the first independent after pullback")
            check_val(self.z.xbar, e["ret"][self.N:], "xbar of the second independent after pullback")
        self.check_held()
        self.hold(self.nodes[0].xbar, "adjoint (x.xbar) of a reverse sweep")
        if not numpy.array_equal(keep, ybar.data):
            raise Mismatch("user-seed-modified", "pullback changed the caller's seed object")
        if not numpy.array_equal(self.snapshot, self.dep_digest()):
            raise Mismatch("forward-values-changed", "the dependent's forward value differs after the reverse sweep")

    def other(self, e):
        al = self.al
        cg2 = al.CGraph()
        z = al.Function(numpy.array([0.5, 1.5, 2.5]))
        w = al.sum(z * z * 3.0)
        cg2.trace_off()
        cg2.independentFunctionList = [z]; cg2.dependentFunctionList = [w]
        g = cg2.gradient(numpy.array([1., 2., 3.]))
        if not numpy.allclose(g, [6., 12., 18.]):
            raise Mismatch("other-graph", "unrelated graph gives %r" % (g,))

    def drv(self, e):
        name = e["name"]
        x = numpy.array([float(to_frac(q)) for q in e["x"]])
        v = numpy.array([float(to_frac(q)) for q in e["v"]])
        w = numpy.array([float(to_frac(q)) for q in e["w"]])
        cg = self.cg
        if name == "gradient":
            got = cg.gradient(x)
        elif name == "jacobian":
            got = cg.jacobian(x)
        elif name == "jac_vec":
            got = cg.jac_vec(x, v)
        elif name == "vec_jac":
            got = cg.vec_jac(w, x)
        elif name == "hessian":
            got = cg.hessian(x)
        elif name == "hess_vec":
            got = cg.hess_vec(x, v)
        elif name == "vec_hess":
            got = cg.vec_hess(w, x)
        elif name == "vec_hess_vec":
            got = cg.vec_hess_vec(w, x, v)
        elif name == "jacobian_utpm":
            J = cg.jacobian(self.al.UTPM(numpy.array([x, v]).reshape(2, 1, -1)))
            exp = e["ret"]           # [i][j] = series
            M = len(exp); Nn = len(exp[0])
            if J.data.shape != (2, 1, M, Nn):
                raise Mismatch("shape", "jacobian(UTPM) returns data shape %s, expected %s" % (J.data.shape, (2, 1, M, Nn)))
            for i in range(M):
                for j in range(Nn):
                    for dd in range(2):
                        if not close(J.data[dd, 0, i, j], to_frac(exp[i][j][dd])):
                            raise Mismatch("value", "jacobian(UTPM) entry (%d,%d) order %d: got %r, expected %s" % (i, j, dd, J.data[dd, 0, i, j], to_frac(exp[i][j][dd])))
            self.last_kind = "U"; self.snapshot = self.dep_digest()
            return
        exp = numpy.array(json.loads(json.dumps(e["ret"])), dtype=object)
        expf = numpy.array([[float(to_frac(q)) for q in row] if isinstance(row[0], list) else float(to_frac(row))
                            for row in e["ret"]], dtype=float)
        got0 = got
        got = numpy.asarray(got, dtype=float)
        if name == "jacobian" and expf.shape[0] == 1 and got.ndim == 1:
            expf = expf.reshape(-1)     # documented: J.ndim = 1 when M == 1
        if name == "jac_vec" and got.ndim == 0 and expf.shape == (1,):
            expf = expf.reshape(())     # scalar dependent: a 0-d result
        if got.shape != expf.shape:
            raise Mismatch("shape", "%s returns shape %s, expected %s" % (name, got.shape, expf.shape))
        if not numpy.allclose(got, expf, rtol=1e-9, atol=1e-11):
            raise Mismatch("value", "%s returns %s, expected %s" % (name, got.tolist(), expf.tolist()))
        self.check_held()
        self.hold(got0, "result of " + name)
        self.last_kind = "U"
        self.snapshot = self.dep_digest()

    def run(self, recpt):
        """returns None or (signature, detail)"""
        self.start(recpt)
        for n, e in enumerate(self.hist):
            c = e["c"]
            try:
                if c == "rec":
                    self.rec(e, n)
                elif c == "trace_off":
                    self.cg.trace_off()
                elif c == "trace_on":
                    self.cg.trace_on()
                elif c == "stop":
                    self.stop()
                elif c == "fwd":
                    self.fwd(e)
                elif c == "pb":
                    self.pb(e)
                elif c == "other":
                    self.other(e)
                elif c == "other_rec":
                    g = self.cgO.gradient(numpy.array([1., 2., 3.]))
                    v = self.cgO.function([numpy.array([1., 2., 3.])])[0]
                    if not numpy.allclose(g, [6., 12., 18.]) or not numpy.allclose(v, 42.):
                        raise Mismatch("other-graph", "unrelated graph gives %r, %r" % (g, v))
                elif c == "drv":
                    self.drv(e)
            except Mismatch as m:
                return (self.sig(e, n, m.clause), {"step": n, "what": m.info})
            except Machinery:
                raise
            except Exception as ex:
                return (self.sig(e, n, "raises " + type(ex).__name__), {"step": n, "what": repr(ex)[-400:]})
        return None

    def sig(self, e, n, clause):
        c = e["c"]
        ops = sorted(set(h["ins"]["op"] for h in self.hist if h["c"] == "rec"))
        if c == "rec":
            s = "rec:" + e["ins"]["op"]
        elif c == "drv":
            s = "drv:" + e["name"]
        elif c == "fwd":
            s = "fwd:%s:D%d" % (e["kind"], e["pt"]["D"])
        else:
            s = c
        prev = [h["c"] for h in self.hist[:n] if h["c"] in ("fwd", "pb", "drv", "other", "other_rec")]
        return "%s %s [program ops %s; after %s]" % (s, clause, ",".join(ops), ">".join(prev) or "recording")


UNSUPPORTED = set()   # programs whose reverse sweep raised NotImplementedError (accepted, reported in evidence)
TRACES = []          # (name, events) recorded in-process under the probe, validated against TraceTracer.tla by the checks


def probe_begin():
    import os, probe
    os.environ["ALGOPY_VERIF_PROBE"] = "1"
    load_algopy()
    probe.install()
    probe.reset()
    from algopy.tracer.tracer import Function
    Function.cgraph = None


def probe_end(name, maxn=400):
    import probe
    if probe.EVENTS and len(TRACES) < maxn:
        TRACES.append((name, list(probe.EVENTS)))
    probe.reset()


RECPT = {"D": 1, "x": [[[[1, 1]], [[2, 1]]]]}


def recpt_for(P, NT=2):
    return {"D": 1, "x": [[[[j + 1, 1]] for j in range(NT)] for _ in range(P)]}


def tracer_check(rep, configs, pid, nontrivial=None):
    algopy = load_algopy()
    total = 0
    for c in configs:
        c = dict(c)
        name = c.pop("name")
        sim = c.pop("simulate", None); depth = c.pop("depth", None)
        kinds = c.pop("rec_kinds", ("U",))
        maxrep = c.pop("max_replay", None)
        tmo = c.pop("timeout", 400)
        kw = dict(simulate=sim, depth=depth, seed=rep.seed) if sim else {}
        module = c.pop("module", "MC_Tracer")
        res = run_tlc(module, cfg(**c), workers=16, timeout=tmo, **kw)
        if res.violated and res.violated != "EmitState":
            raise Machinery("spec property %s violated in %s:\n%s" % (res.violated, name, res.out[-3000:]))
        tlc_ok(res, "MC_Tracer " + name)
        rep.add_tlc(res, name)
        hs = res.records
        if c.get("emit", True) is False:
            continue
        if not hs:
            raise Machinery("no behaviours from " + name)
        seen = set()
        uniq = []
        for h in hs:
            k = json.dumps(h, sort_keys=True)
            if k not in seen:
                seen.add(k); uniq.append(h)
        if maxrep and len(uniq) > maxrep:
            import random
            random.Random(rep.seed).shuffle(uniq)
            uniq = uniq[:maxrep]
        P = c.get("P", 1); N = c.get("N", 2)
        for bi, h in enumerate(uniq):
            for kind in kinds:
                if kind == "A" and P != 1:
                    continue
                calls = [e["c"] for e in h if e["c"] in ("fwd", "pb", "drv")]
                if kind in ("A", "V") and calls and calls[0] == "pb":
                    continue            # a reverse sweep right after recording with plain arrays is not defined
                first = next((e for e in h if e["c"] in ("fwd", "pb", "drv")), None)
                if module == "MC_CTracer" and first is not None and first["c"] == "pb" and \
                        any(isinstance(to_frac(q), tuple) for cell in first["ybar"] for srs in cell for q in srs):
                    continue            # a complex seed for the real-valued recording run: the adjoint buffers take their element
                                        # type from the forward values (NumPy casting), outside the properties
                rec_this = (bi % 7 == 0) and len(TRACES) < 400
                if rec_this:
                    probe_begin()
                r = TracerReplayer(algopy, h, N, P, rec_kind=kind, prefix=c.get("prefix", "plain")).run(recpt_for(P, N * c.get("NI", 1)))
                if rec_this:
                    probe_end("%s behaviour %d (%s)" % (name, bi, kind))
                ninstr = sum(1 for e in h if e["c"] == "rec")
                ncalls = sum(1 for e in h if e["c"] in ("fwd", "pb", "drv", "other"))
                nt = (ninstr >= 2 and ncalls >= 1) if nontrivial is None else nontrivial(h)
                rep.case((name, json.dumps(h, sort_keys=True), kind), nontrivial=nt)
                rep.replayed(1)
                if r:
                    rep.violation(r[0], dict(r[1], behaviour=h, recording_kind=kind, config=name))
        total += len(uniq)
        # vacuity guard: which spec actions the explored behaviours actually contain
        counts = {}
        for h in uniq:
            for e in h:
                k = e["c"] if e["c"] != "rec" else "rec:" + e["ins"]["op"]
                if e["c"] == "drv":
                    k = "drv:" + e["name"]
                counts[k] = counts.get(k, 0) + 1
        rep.parts[name]["action_counts"] = counts
        if not any(k in counts for k in ("fwd", "pb")) and not any(k.startswith("drv:") for k in counts):
            raise Machinery("vacuous configuration %s: no call on the recorded graph was explored" % name)
        big = max(uniq, key=lambda h: len(h))
        rep.sample({"config": name, "behaviour": [{k: v for k, v in e.items() if k not in ("ret", "v")} for e in big]}, maxn=4)
    return total


def self_test(rep):
    """binding self-test: a behaviour whose predicted result is corrupted must be rejected by the replay"""
    algopy = load_algopy()
    res = tlc_ok(run_tlc("MC_Tracer", cfg(maxinstr=2, maxhist=2, ops="OpsCore", points="PtsD2", seeds="SeedsB"), workers=8, timeout=300), "self-test")
    h = next(h for h in res.records if [e["c"] for e in h if e["c"] in ("fwd", "pb")] == ["fwd", "pb"])
    if TracerReplayer(algopy, h, 2, 1).run(recpt_for(1)) is not None:
        raise Machinery("self-test: unmodified behaviour rejected")
    for which in ("fwd", "pb"):
        h2 = json.loads(json.dumps(h))
        e = next(e for e in h2 if e["c"] == which)
        q = e["ret"][0][0][0]
        e["ret"][0][0][0] = [q[0] + q[1], q[1]]
        if TracerReplayer(algopy, h2, 2, 1).run(recpt_for(1)) is None:
            raise Machinery("self-test: corrupted %s result not detected" % which)
    # removing a node from the expected graph must be noticed
    r = TracerReplayer(algopy, h, 2, 1)
    r.start(recpt_for(1))
    r.graph_nodes.pop()
    try:
        r.check_graph()
    except Mismatch:
        return
    raise Machinery("self-test: missing graph node not detected")


def full_api_histories(rep, seed, n=60):
    """Histories on programs over the full differentiable API (no exact spec value): the result of a call must not
    depend on the calls made before it.  pushforward; pullback(s1) -> a; pullback(s2); pullback(s1) -> a2 == a; and a equals
    the result of the same call on a freshly recorded graph; node values unchanged by the sweeps."""
    import random
    algopy = load_algopy()
    rnd = random.Random(seed)
    # (tanh, cosh, arctan, arcsin ... have no Function method: they cannot be recorded and are not part of the traced API)
    unary = [algopy.tan, algopy.sqrt, algopy.exp, algopy.log, algopy.sin, algopy.cos, algopy.log1p, algopy.expm1,
             algopy.square, algopy.reciprocal, algopy.special.erf, algopy.special.expit, algopy.absolute,
             algopy.special.dawsn, algopy.special.erfi, algopy.negative]

    def make_prog():
        ops = [rnd.choice(unary) for _ in range(rnd.randint(1, 3))]
        kind = rnd.choice(["elem", "dot", "inv", "qr", "buf", "solve", "eigh", "cholesky", "det", "logdet", "svd", "lu", "expm"])
        def f(x):
            y = x * 0.25 + 0.5
            for u in ops:
                if u in (algopy.log, algopy.sqrt, algopy.reciprocal, algopy.log1p):       # (stay inside the domain)
                    y = y * y + 0.5
                y = u(y)
            if kind == "elem":
                return algopy.sum(y * x)
            if kind == "dot":
                A = algopy.reshape(y, (2, 2))
                return algopy.sum(algopy.dot(A, A) * numpy.array([[1., 2.], [3., 5.]]))
            if kind == "inv":
                A = algopy.reshape(y, (2, 2)) + numpy.array([[3., 0.], [1., 4.]])
                return algopy.sum(algopy.inv(A) * numpy.array([[1., 2.], [3., 5.]]))
            if kind == "solve":
                A = algopy.reshape(y, (2, 2)) + numpy.array([[3., 0.], [1., 4.]])
                return algopy.sum(algopy.solve(A, algopy.reshape(x, (2, 2))) * numpy.array([[1., 2.], [3., 5.]]))
            if kind == "qr":
                A = algopy.reshape(y, (2, 2)) + numpy.array([[3., 0.], [1., 4.]])
                Q, R = algopy.qr(A)
                return algopy.sum(R * numpy.array([[1., 2.], [3., 5.]])) + algopy.sum(Q * numpy.array([[2., -1.], [1., 3.]]))
            if kind == "eigh":
                A = algopy.reshape(y, (2, 2))
                S = A + A.T + numpy.array([[3., 0.], [0., -4.]])
                l, Q = algopy.eigh(S)
                return algopy.sum(l * numpy.array([1., 2.]))
            if kind in ("cholesky", "det", "logdet", "svd", "lu", "expm"):
                A = algopy.reshape(y, (2, 2))
                S = algopy.dot(A, A.T) + numpy.array([[3., 0.5], [0.5, 4.]])
                if kind == "cholesky":
                    return algopy.sum(algopy.cholesky(S) * numpy.array([[1., 2.], [3., 5.]]))
                if kind == "det":
                    return algopy.det(S) + algopy.det(A + numpy.array([[3., 0.], [1., 4.]]))
                if kind == "logdet":
                    return algopy.logdet(S)
                if kind == "svd":
                    U_, s_, V_ = algopy.svd(A + numpy.array([[3., 0.], [1., 1.]]))
                    return algopy.sum(s_ * numpy.array([1., 2.]))
                if kind == "lu":
                    W_, L_, U_ = algopy.lu(A + numpy.array([[3., 0.], [1., 4.]]))
                    return algopy.sum(L_ * numpy.array([[1., 2.], [3., 5.]])) + algopy.sum(U_ * numpy.array([[2., -1.], [1., 3.]]))
                if kind == "expm":
                    return algopy.sum(algopy.expm(A * 0.25) * numpy.array([[1., 2.], [3., 5.]]))
            if kind == "buf":
                b = algopy.zeros(2, dtype=x)
                b[0] = y[0] * y[1]
                g = algopy.sin(b[0]) * y[2]
                b[0] = g * y[3]
                b[1] = b[0] + g
                return b[0] * b[1]
        return f, kind, [u.__name__ for u in ops]

    def record(f, x0):
        cg = algopy.CGraph()
        x = algopy.Function(x0)
        y = f(x)
        cg.trace_off()
        cg.independentFunctionList = [x]; cg.dependentFunctionList = [y]
        return cg

    for it in range(n):
        f, kind, names = make_prog()
        D = rnd.choice([1, 2, 3]); P = rnd.choice([1, 2])
        pt = numpy.array([[[rnd.uniform(0.2, 1.2) for _ in range(4)] for _ in range(P)] for _ in range(D)])
        pt[1:] *= 0.5
        other_pt = numpy.array([[[rnd.uniform(0.2, 1.2) for _ in range(4)] for _ in range(P)] for _ in range(D)])
        s1 = algopy.UTPM(numpy.array([[rnd.uniform(-1, 1) for _ in range(P)] for _ in range(D)]))
        s2 = algopy.UTPM(numpy.array([[rnd.uniform(-1, 1) for _ in range(P)] for _ in range(D)]))
        sig = "full-api history [%s; %s]" % (kind, ",".join(names))
        rep.case(("fullapi", it, kind, tuple(names), D, P), nontrivial=True)
        rep.replayed(1)
        probe_begin()
        try:
            rec_kind = rnd.choice(["arr", "utpm"])
            x0 = numpy.array([0.3, 0.6, 0.9, 0.5]) if rec_kind == "arr" else algopy.UTPM(numpy.array([[[0.3, 0.6, 0.9, 0.5]]]))
            cg = record(f, x0)
            # reference: a fresh graph, one forward, one sweep
            cgr = record(f, x0)
            cgr.pushforward([algopy.UTPM(pt.copy())]); cgr.pullback([s1.clone()])
            ref = cgr.independentFunctionList[0].xbar.data.copy()
            refval = cgr.dependentFunctionList[0].x.data.copy()
            # history: evaluate elsewhere first, then here; sweep with s1, s2, s1
            cg.pushforward([algopy.UTPM(other_pt.copy())]); cg.pullback([s2.clone()])
            cg.pushforward([algopy.UTPM(pt.copy())])
            vals0 = [numpy.array(fn.x.data).copy() for fn in cg.functionList if isinstance(fn.x, algopy.UTPM)]
            if not numpy.allclose(cg.dependentFunctionList[0].x.data, refval, rtol=1e-10, atol=1e-12):
                rep.violation(sig + " forward value depends on history", {"kind": kind, "ops": names, "D": D, "P": P}); continue
            outs = []
            for s in (s1, s2, s1):
                cg.pullback([s.clone()])
                outs.append(cg.independentFunctionList[0].xbar.data.copy())
            vals1 = [numpy.array(fn.x.data).copy() for fn in cg.functionList if isinstance(fn.x, algopy.UTPM)]
            scale = 1 + abs(ref).max()
            if abs(outs[0] - ref).max() > 1e-9 * scale:
                rep.violation(sig + " first sweep differs from a fresh graph", {"kind": kind, "ops": names, "D": D, "P": P, "err": float(abs(outs[0] - ref).max())})
            elif abs(outs[2] - ref).max() > 1e-9 * scale:
                rep.violation(sig + " repeated sweep differs", {"kind": kind, "ops": names, "D": D, "P": P, "err": float(abs(outs[2] - ref).max())})
            elif any(a.shape != b.shape or not numpy.allclose(a, b, rtol=1e-12, atol=1e-13) for a, b in zip(vals0, vals1)):
                rep.violation(sig + " node forward values changed by reverse sweeps", {"kind": kind, "ops": names, "D": D, "P": P})
        except Exception as ex:
            rep.violation(sig + " raises " + type(ex).__name__, {"kind": kind, "ops": names, "what": repr(ex)[-300:]})
        probe_end(sig + " #%d" % it)


def dtype_histories(rep, seed):
    """C06: the same graph evaluated and swept with real data, then with complex data of the same degree, direction count
    and shape (and back): every sweep must equal the sweep of a fresh graph"""
    import random
    algopy = load_algopy()
    rnd = random.Random(seed + 23)

    def f(x):
        b = algopy.zeros(2, dtype=x)
        b[0] = x[0] * x[1]
        b[1] = b[0] * x[2] + x[3]
        return algopy.sum(x * x * x[::-1]) + algopy.dot(b, b) * x[0] + algopy.sum(algopy.exp(x * 0.25) / (x * x + 2.0))

    def rec():
        cg = algopy.CGraph(); x = algopy.Function(numpy.array([0.3, 0.6, 0.9, 0.5])); y = f(x); cg.trace_off()
        cg.independentFunctionList = [x]; cg.dependentFunctionList = [y]
        return cg
    for it in range(12):
        D = rnd.choice([1, 2, 3]); P = rnd.choice([1, 2])
        mk = {"real": lambda: numpy.array([[[rnd.uniform(0.2, 1.2) for _ in range(4)] for _ in range(P)] for _ in range(D)]),
              "complex": lambda: numpy.array([[[complex(rnd.uniform(0.2, 1.2), rnd.uniform(-0.5, 0.5)) for _ in range(4)] for _ in range(P)] for _ in range(D)])}
        sd = {"real": lambda: numpy.array([[rnd.uniform(-1, 1) for _ in range(P)] for _ in range(D)]),
              "complex": lambda: numpy.array([[complex(rnd.uniform(-1, 1), rnd.uniform(-1, 1)) for _ in range(P)] for _ in range(D)])}
        order = rnd.choice([("real", "complex", "real"), ("complex", "real", "complex"), ("real", "complex", "complex")])
        cg = rec()
        rep.case(("dtype-history", it, D, P, order), nontrivial=True); rep.replayed(1)
        try:
            for k, kind in enumerate(order):
                x = mk[kind](); s_ = sd[kind]()
                cg.pushforward([algopy.UTPM(x.copy())]); cg.pullback([algopy.UTPM(s_.copy())])
                got = cg.independentFunctionList[0].xbar.data.copy()
                fresh = rec(); fresh.pushforward([algopy.UTPM(x.copy())]); fresh.pullback([algopy.UTPM(s_.copy())])
                ref = fresh.independentFunctionList[0].xbar.data
                if got.shape != ref.shape or not numpy.allclose(got, ref, rtol=1e-10, atol=1e-12):
                    rep.violation("sweep with %s data after sweeps with %s data differs from a fresh graph" % (kind, "/".join(order[:k]) or "no"), {"D": D, "P": P, "order": list(order)}); break
        except Exception as ex:
            rep.violation("dtype history raises " + type(ex).__name__, {"what": repr(ex)[-300:], "order": list(order)})


def jacobian_utpm_check(rep, seed):
    """jacobian(UTPM x) with several directions and degrees: every entry must be the Taylor expansion of the analytic
    Jacobian entry along each direction's curve (the entries are polynomials, expanded with UTPM arithmetic = C02)"""
    import random
    algopy = load_algopy()
    from algopy import UTPM
    rnd = random.Random(seed + 3)
    for it in range(6):
        M = 2 + it % 2
        cg = algopy.CGraph()
        x = algopy.Function(numpy.array([1., 2., 3.]))
        y = algopy.zeros(M, dtype=x)
        y[0] = x[0] * x[1] * x[1] + x[2]
        y[1] = x[2] * x[2] * x[0] - x[1]
        if M == 3:
            y[2] = x[0] * x[1] * x[2]
        cg.trace_off(); cg.independentFunctionList = [x]; cg.dependentFunctionList = [y]
        D = rnd.choice([1, 2, 3]); P = rnd.choice([1, 2, 3])
        data = numpy.array([[[rnd.randint(-2, 3) * 0.5 for _ in range(3)] for _ in range(P)] for _ in range(D)])
        X = UTPM(data.copy())
        one = X[0] * 0 + 1.0; zero = X[0] * 0
        rows = [[X[1] * X[1], 2.0 * X[0] * X[1], one], [X[2] * X[2], zero - 1.0, 2.0 * X[2] * X[0]], [X[1] * X[2], X[0] * X[2], X[0] * X[1]]][:M]
        rep.case(("jacobian_utpm", it, D, P, M), nontrivial=True); rep.replayed(1)
        try:
            J = cg.jacobian(UTPM(data.copy()))
            if J.data.shape != (D, P, M, 3):
                rep.violation("jacobian(UTPM) shape", {"got": list(J.data.shape), "expected": [D, P, M, 3]}); continue
            for i in range(M):
                for j in range(3):
                    if not numpy.allclose(J.data[:, :, i, j], rows[i][j].data, rtol=1e-10, atol=1e-12):
                        rep.violation("jacobian(UTPM): entry is not the Taylor expansion of dy_i/dx_j along the curve",
                                      {"entry": [i, j], "D": D, "P": P, "M": M, "got": J.data[:, :, i, j].tolist(), "expected": rows[i][j].data.tolist()})
                        raise StopIteration
        except StopIteration:
            pass
        except Exception as ex:
            rep.violation("jacobian(UTPM) raises " + type(ex).__name__, {"what": repr(ex)[-300:]})


def adjoint_programs(algopy):
    """(name, f) pairs: scalar-valued programs of 4 inputs over the whole differentiable API (shared by C03, C12)"""
    W22 = numpy.array([[1., 2.], [3., 5.]]); W2 = numpy.array([2., -1.])
    A0 = numpy.array([[3., 1.], [1., 4.]])
    return [
        ("sum_axis0", lambda x: algopy.sum(algopy.sum(algopy.reshape(x, (2, 2)) * algopy.reshape(x, (2, 2)), axis=0) * W2)),
        ("sum_axis1", lambda x: algopy.sum(algopy.sum(algopy.reshape(x * x, (2, 2)), axis=1) * W2)),
        ("sum_axis-1", lambda x: algopy.sum(algopy.sum(algopy.reshape(x * x, (2, 2)), axis=-1) * W2)),
        ("outer", lambda x: algopy.sum(algopy.outer(x[:2] * x[:2], x[1:] * x[1:] * x[1:]) * numpy.array([[1., 2., 3.], [5., 7., 11.]]))),
        ("dot_mm", lambda x: algopy.sum(algopy.dot(algopy.reshape(x, (2, 2)), algopy.reshape(x * x, (2, 2))) * W22)),
        ("dot_vv", lambda x: algopy.dot(x, x * x)),
        ("inv", lambda x: algopy.sum(algopy.inv(algopy.reshape(x, (2, 2)) + A0) * W22)),
        ("solve", lambda x: algopy.sum(algopy.solve(algopy.reshape(x, (2, 2)) + A0, algopy.reshape(x * x, (2, 2))) * W22)),
        ("det", lambda x: algopy.det(algopy.reshape(x, (2, 2)) + A0)),
        ("logdet", lambda x: algopy.logdet(algopy.reshape(x, (2, 2)) + A0)),
        ("trace", lambda x: algopy.trace(algopy.dot(algopy.reshape(x, (2, 2)), algopy.reshape(x, (2, 2))))),
        ("transpose", lambda x: algopy.sum(algopy.dot(algopy.reshape(x, (2, 2)).T, algopy.reshape(x * x, (2, 2))) * W22)),
        ("reshape_view", lambda x: algopy.sum(algopy.reshape(x * x, (2, 2)) * W22)),
        ("getitem_slices", lambda x: algopy.sum(x[::-1][1:] * x[:-1] * numpy.array([1., 2., 3.]))),
        ("pow_neg", lambda x: algopy.sum(x ** -2 * numpy.array([1., 2., 3., 4.]))),
        ("pow_real", lambda x: algopy.sum((x * x + 1.) ** 1.5)),
        ("div_const_left", lambda x: algopy.sum(2. / (x * x + 1.))),
        ("sub_const_left", lambda x: algopy.sum((3. - x) * x)),
        ("broadcast_mul_arr", lambda x: algopy.sum(algopy.reshape(x, (2, 2))[0] * numpy.array([[1., 2.], [3., 4.], [5., 6.]]))),
        ("broadcast_scalar", lambda x: algopy.sum(x[0] * x * x[1])),
        ("qr", lambda x: (lambda QR: algopy.sum(QR[1] * W22) + algopy.sum(QR[0] * W22.T))(algopy.qr(algopy.reshape(x, (2, 2)) + A0))),
        ("cholesky", lambda x: (lambda A: algopy.sum(algopy.cholesky(algopy.dot(A, A.T) + A0) * W22))(algopy.reshape(x, (2, 2)))),
        ("eigh", lambda x: (lambda A: algopy.sum(algopy.eigh(A + A.T + numpy.array([[3., 0.], [0., -4.]]))[0] * W2))(algopy.reshape(x, (2, 2)))),
        ("svd", lambda x: algopy.sum(algopy.svd(algopy.reshape(x, (2, 2)) + A0)[1] * W2)),
        ("diag", lambda x: algopy.sum(algopy.dot(algopy.diag(x[:2]), algopy.reshape(x, (2, 2))) * W22)),
        ("symvec", lambda x: (lambda A: algopy.sum(algopy.symvec(A + A.T) * numpy.array([1., 2., 3.])))(algopy.reshape(x * x, (2, 2)))),
        ("prod", lambda x: algopy.prod(x)),
        ("buffer", lambda x: T_buffer(algopy, x)),
        ("reshape_of_slice_view", lambda x: algopy.sum(algopy.reshape(algopy.reshape(x * x, (2, 2))[:, 0:1], (2, 1, 1)) * numpy.array([[[2.]], [[3.]]]))),
        ("reshape_of_strided_view", lambda x: algopy.sum(algopy.reshape((x * x)[::2], (1, 2)) * numpy.array([[2., 3.]]))),
        ("const_dot_x", lambda x: algopy.sum(algopy.dot(W22, algopy.reshape(x * x, (2, 2))) * W22.T)),
        ("x_dot_const", lambda x: algopy.sum(algopy.dot(algopy.reshape(x * x, (2, 2)), W22) * W22.T)),
        ("const_dot_vec", lambda x: algopy.sum(algopy.dot(W22, x[:2] * x[2:]) * W2)),
        ("eigh_vectors", lambda x: (lambda A: algopy.sum(algopy.eigh(A + A.T + numpy.array([[3., 0.], [0., -4.]]))[1] * W22))(algopy.reshape(x, (2, 2)))),
        ("eig_values", lambda x: algopy.sum(algopy.real(algopy.eig(algopy.reshape(x, (2, 2)) + numpy.array([[3., 1.], [0.5, -1.]]))[0]) * W2)),
        ("lu_factors", lambda x: (lambda WLU: algopy.sum(WLU[1] * W22) + algopy.sum(WLU[2] * W22.T))(algopy.lu(algopy.reshape(x, (2, 2)) + numpy.array([[0.1, 2.], [3., 0.2]])))),
        ("cholesky_solve", lambda x: (lambda A: algopy.sum(algopy.solve(algopy.cholesky(algopy.dot(A, A.T) + numpy.array([[3., 1.], [1., 4.]])), A) * W22))(algopy.reshape(x, (2, 2)))),
        ("qr_tall", lambda x: (lambda QR: algopy.sum(QR[1] * numpy.array([[1., 2.], [0., 3.]])) + algopy.sum(QR[0] * numpy.arange(1., 7.).reshape(3, 2)))(algopy.qr(algopy.reshape(algopy.tile(x, 2)[:6], (3, 2)) + numpy.array([[2., 0.], [0., 3.], [1., 1.]])))),
        ("qr_wide", lambda x: (lambda QR: algopy.sum(QR[1] * numpy.arange(1., 7.).reshape(2, 3)))(algopy.qr(algopy.reshape(algopy.tile(x, 2)[:6], (2, 3)) + numpy.array([[2., 0., 1.], [0., 3., 1.]])))),
        ("qr_full", lambda x: (lambda QR: algopy.sum(QR[1] * numpy.arange(1., 7.).reshape(3, 2)))(algopy.qr_full(algopy.reshape(algopy.tile(x, 2)[:6], (3, 2)) + numpy.array([[2., 0.], [0., 3.], [1., 1.]])))),
        ("solve_const_rhs", lambda x: algopy.sum(algopy.solve(algopy.reshape(x, (2, 2)) + A0, W22) * W22.T)),
        ("solve_const_matrix", lambda x: algopy.sum(algopy.solve(A0, algopy.reshape(x * x, (2, 2))) * W22.T)),
        ("inv_nonsymmetric", lambda x: algopy.sum(algopy.inv(algopy.reshape(x, (2, 2)) * numpy.array([[1., 2.], [-1., 1.]]) + numpy.array([[3., 1.], [-1., 2.]])) * W22)),
        ("logdet_negative_det", lambda x: algopy.logdet(algopy.reshape(x, (2, 2)) * 0.1 + numpy.array([[0., 2.], [3., 0.]])) * algopy.sum(x)),
        ("trace_of_product", lambda x: algopy.trace(algopy.dot(algopy.reshape(x, (2, 2)).T, algopy.reshape(x * x, (2, 2))))),
        ("symvec_L", lambda x: (lambda A: algopy.sum(algopy.symvec(A, 'L') * numpy.array([1., 2., 3.])))(algopy.reshape(x * x, (2, 2)))),
        ("symvec_U", lambda x: (lambda A: algopy.sum(algopy.symvec(A, 'U') * numpy.array([1., 2., 3.])))(algopy.reshape(x * x, (2, 2)))),
        ("vecsym", lambda x: algopy.sum(algopy.dot(algopy.vecsym(x[:3] * x[1:]), algopy.vecsym(x[:3])) * W22)),
        ("sum_negative_axis", lambda x: algopy.sum(algopy.sum(algopy.reshape(x * x, (2, 2)), axis=-2) * W2)),
        ("tile_2d", lambda x: algopy.sum(algopy.tile(algopy.reshape(x * x, (2, 2)), (2, 1)) * numpy.arange(1., 9.).reshape(4, 2))),
        ("fft_axis0", lambda x: algopy.sum(algopy.real(algopy.fft.ifft(algopy.fft.fft(algopy.reshape(x * x, (2, 2)), axis=0) * W22, axis=0)) * W22.T)),
        ("imag_of_fft", lambda x: algopy.sum(algopy.imag(algopy.fft.fft(x * x)) * numpy.array([1., 2., 3., 4.]))),
        ("conjugate_fft", lambda x: algopy.sum(algopy.real(algopy.conjugate(algopy.fft.fft(x * x)) * algopy.fft.fft(x)) * numpy.array([1., 2., 3., 4.]))),
        ("getitem_newaxis", lambda x: algopy.sum(x[None, :] * numpy.array([[1., 2., 3., 4.], [0., 1., 0., 2.]]) * x[::-1][None])),
        ("setitem_slices", lambda x: T_setslices(algopy, x)),
        ("reciprocal_square", lambda x: algopy.sum(algopy.reciprocal(algopy.square(x) + 1.) * algopy.absolute(x - 0.75))),
        ("expm1_log1p", lambda x: algopy.sum(algopy.expm1(x) * algopy.log1p(x))),
        ("negative_sign", lambda x: algopy.sum(algopy.negative(x) * algopy.sign(x - 0.75) * x)),
        ("special2", lambda x: algopy.sum(algopy.special.gammaln(x + 1.) * algopy.special.psi(x + 0.5) + algopy.special.erfi(x * 0.5) + algopy.special.logit(x * 0.5))),
        ("polygamma_hyperu", lambda x: algopy.sum(algopy.special.polygamma(1, x + 0.5) + algopy.special.hyperu(1., 1.5, x + 0.5))),
        ("botched_clip", lambda x: algopy.sum(algopy.special.botched_clip(0.5, 1.0, x) * x)),
        ("div_bcast_cols", lambda x: algopy.sum(algopy.reshape(x, (2, 2)) / (algopy.reshape(x, (2, 2))[:, 0:1] + 2.))),
        ("transposed_operands", lambda x: algopy.sum((algopy.reshape(x, (2, 2)).T * algopy.reshape(x * x, (2, 2))) / (algopy.reshape(x, (2, 2)).T + 2.))),
        ("dot_mv", lambda x: algopy.sum(algopy.dot(algopy.reshape(x, (2, 2)), x[:2] * x[:2]) * W2)),
        ("dot_vm", lambda x: algopy.sum(algopy.dot(x[:2] * x[:2], algopy.reshape(x, (2, 2))) * W2)),
        ("reshape_noncontiguous", lambda x: algopy.sum(algopy.reshape(algopy.reshape(x * x, (2, 2)).T, (4,)) * numpy.array([1., 2., 3., 4.]))),
        ("tile", lambda x: algopy.sum(algopy.tile(x[:2] * x[:2], 2) * numpy.array([1., 2., 3., 4.]))),
        ("fft_ifft", lambda x: algopy.sum(algopy.real(algopy.fft.ifft(algopy.fft.fft(x * x) * numpy.array([1., 2., 3., 4.]))) * numpy.array([1., 2., 3., 4.]))),
        ("ifft_real", lambda x: algopy.sum(algopy.real(algopy.fft.ifft(x * x)) * numpy.array([1., 2., 3., 4.]))),
        ("det_mixed_pivots", lambda x: algopy.det(algopy.reshape(x, (2, 2)))),
        ("logdet_mixed_pivots", lambda x: algopy.logdet(algopy.dot(algopy.reshape(x, (2, 2)), numpy.array([[1., 0.], [0., -1.]])))),
        ("det_pivot", lambda x: algopy.det(algopy.reshape(x, (2, 2)) * numpy.array([[0.1, 1.], [1., 0.1]]) + numpy.array([[0., 2.], [3., 0.]]))),
        ("logdet3", lambda x: algopy.logdet(algopy.dot(algopy.reshape(x, (2, 2)), algopy.reshape(x, (2, 2)).T) + A0)),
        ("mul_const_bigger", lambda x: algopy.sum(x[:2] * numpy.array([[1., 2.], [3., 4.], [5., 6.]]) * x[:2])),
        ("const_bigger_mul", lambda x: algopy.sum(numpy.array([[1., 2.], [3., 4.], [5., 6.]]) * (x[:2] * x[2:]))),
        ("add_const_bigger", lambda x: algopy.sum((x[:2] + numpy.array([[1., 2.], [3., 4.], [5., 6.]])) * (x[:2] - numpy.array([[1.], [3.], [5.]])))),
        ("div_both", lambda x: algopy.sum((x * x) / (x[::-1] + 2.))),
        ("div_const_bigger", lambda x: algopy.sum(x[:2] / numpy.array([[1., 2.], [3., 4.], [5., 6.]]) + numpy.array([[1., 2.], [3., 4.], [5., 6.]]) / x[2:])),
        ("special", lambda x: algopy.sum(algopy.special.erf(x) * algopy.special.expit(x) + algopy.special.dawsn(x))),
        ("elementary", lambda x: algopy.sum(algopy.exp(algopy.sin(x)) * algopy.log(x * x + 1.) + algopy.sqrt(x * x + 2.) * algopy.tan(x * 0.5) + algopy.cos(x))),
        # transforms that pad or truncate (n different from the length of the axis)
        ("fft_n_pad", lambda x: algopy.sum(algopy.real(algopy.fft.fft(x * x, n=6)) * numpy.array([1., 2., 3., 4., 5., 6.]) + algopy.imag(algopy.fft.fft(x * x, n=6)))),
        ("ifft_n_truncate_axis0", lambda x: algopy.sum(algopy.real(algopy.fft.ifft(algopy.reshape(x * x, (2, 2)), n=1, axis=0)) * numpy.array([[1., 2.]]))),
        # reshape of values that are themselves views (a slice of the parameter vector, the result of an earlier reshape)
        ("reshape_of_slice", lambda x: algopy.sum(algopy.reshape(x[1:3], (2, 1)) * numpy.array([[2.], [-3.]]) * x[0]) + algopy.sum(algopy.reshape(x[:4], (2, 2)) * algopy.reshape(x[:4], (2, 2)) * W22)),
        ("reshape_of_reshape", lambda x: algopy.sum(algopy.reshape(algopy.reshape(x, (2, 2)), (4, 1)) * numpy.array([[1.], [2.], [3.], [4.]]) * algopy.reshape(algopy.reshape(x * x, (1, 4)), (4, 1)))),
        # reshape / flatten of intermediates that own their data in a transposed layout
        ("reshape_scaled_transpose", lambda x: algopy.sum(algopy.reshape(2.0 * algopy.reshape(x * x, (2, 2)).T, (4,)) * numpy.array([1., 2., 3., 4.]))),
        ("reshape_sum_of_transposes", lambda x: (lambda X: algopy.sum(algopy.reshape(X.T + (X * X).T, (4,)) * numpy.array([1., 2., 3., 4.])))(algopy.reshape(x, (2, 2)))),
        ("reshape_transpose_times_const", lambda x: (lambda X: algopy.sum(algopy.reshape(X.T * W22, (1, 4)) * numpy.array([[1., 2., 3., 4.]])))(algopy.reshape(x * x, (2, 2)))),
        # every broadcasting direction of the binary operators between traced operands (the smaller operand's adjoint is a sum)
        ("div_num_scalar_over_vec", lambda x: algopy.sum((x[0] * x[1]) / (x * x + 1.))),
        ("div_num_row_over_mat", lambda x: algopy.sum((x[:2] * x[2:]) / (algopy.reshape(x, (2, 2)) + 2.) * W22)),
        ("div_num_col_over_mat", lambda x: algopy.sum(algopy.reshape(x[:2] * x[2:], (2, 1)) / (algopy.reshape(x, (2, 2)) + 2.) * W22)),
        ("mul_scalar_times_mat", lambda x: algopy.sum((x[0] * x[3]) * algopy.reshape(x * x, (2, 2)) * W22 + algopy.reshape(x, (2, 2)) * (x[1] * x[2]))),
        ("sub_row_minus_mat", lambda x: algopy.sum(((x[:2] * x[2:]) - algopy.reshape(x * x, (2, 2))) * ((x[1] * x[1]) + algopy.reshape(x, (2, 2))) * W22)),
        # both kinds of broadcasting at once: the smaller operand gets axes prepended AND has a length-one axis that is stretched
        ("bcast_col_times_3d", lambda x: algopy.sum(algopy.reshape(x[:3] * x[1:], (3, 1)) * (numpy.arange(1., 25.).reshape(2, 3, 4) * 0.125))),
        ("bcast_col_over_3d_traced", lambda x: algopy.sum(algopy.reshape(x[:3] * x[1:], (3, 1)) / (algopy.reshape(algopy.tile(x, 6), (2, 3, 4)) + numpy.arange(1., 25.).reshape(2, 3, 4) * 0.25))),
        ("bcast_len1_plus_matrix", lambda x: algopy.sum(((x[:1] * x[1:2]) + algopy.reshape(algopy.tile(x, 2)[:6], (2, 3))) * ((x[2:3] * x[3:]) - algopy.reshape(algopy.tile(x * x, 2)[:6], (2, 3))) * numpy.arange(1., 7.).reshape(2, 3))),
        ("bcast_row1_times_3d_traced", lambda x: algopy.sum(algopy.reshape(x * x, (1, 4)) * algopy.reshape(algopy.tile(x, 6), (2, 3, 4)) * (numpy.arange(1., 25.).reshape(2, 3, 4) * 0.125))),
        # a plain array as the left / right operand of dot, matrix and vector forms
        ("dot_constM_M", lambda x: algopy.sum(algopy.dot(W22, algopy.reshape(x * x, (2, 2))) * W22.T)),
        ("dot_M_constM", lambda x: algopy.sum(algopy.dot(algopy.reshape(x * x, (2, 2)), W22) * W22.T)),
        ("dot_constM_v", lambda x: algopy.sum(algopy.dot(W22, x[:2] * x[2:]) * W2)),
        ("dot_v_constM", lambda x: algopy.sum(algopy.dot(x[:2] * x[2:], W22) * W2)),
        ("dot_constv_v", lambda x: algopy.dot(W2, x[:2] * x[2:]) * x[0]),
        ("dot_v_constv", lambda x: algopy.dot(x[:2] * x[2:], W2) * x[3]),
        ("dot_constv_M", lambda x: algopy.sum(algopy.dot(W2, algopy.reshape(x * x, (2, 2))) * W2)),
        # the same node as both arguments of a binary function (both adjoints accumulate into one buffer)
        ("dot_same_node", lambda x: (lambda M: algopy.sum(algopy.dot(M, M) * W22))(algopy.reshape(x, (2, 2)) + A0)),
        ("dot_vv_same_node", lambda x: (lambda v: algopy.dot(v, v))(x * x + 1.)),
        ("outer_same_node", lambda x: (lambda v: algopy.sum(algopy.outer(v, v) * numpy.array([[1., 2., 3., 4.], [5., 6., 7., 8.], [9., 10., 11., 12.], [13., 14., 15., 17.]])))(x * x)),
        ("solve_same_node", lambda x: (lambda M: algopy.sum(algopy.solve(M, M) * W22) + algopy.sum(M))(algopy.reshape(x, (2, 2)) + A0)),
        ("div_same_node", lambda x: (lambda v: algopy.sum(v / v + v * v - v + (v - v)))(x * x + 1.)),
        # full reductions (no axis) over operands whose element axes cannot be merged into one: transposes, column blocks,
        # strided rows, products computed in a permuted layout
        ("sum_all_of_transpose", lambda x: algopy.sum(algopy.reshape(x * x, (2, 2)).T) * x[0]),
        ("sum_all_of_column_block", lambda x: algopy.sum(algopy.reshape(algopy.tile(x * x, 2)[:6], (2, 3))[:, 1:]) * x[1]),
        ("sum_all_of_strided_rows", lambda x: algopy.sum(algopy.reshape(algopy.tile(x * x, 2), (4, 2))[::2]) * x[2]),
        ("sum_all_of_transposed_product", lambda x: (lambda A: algopy.sum(A.T * algopy.reshape(x, (2, 2))) + algopy.sum((A.T * A.T)[:, 1:]))(algopy.reshape(x * x, (2, 2)))),
        ("prod_all_of_transpose", lambda x: algopy.prod(algopy.reshape(x * x, (2, 2)).T + 1.) * x[3]),
        ("prod_all_of_column_block", lambda x: algopy.prod(algopy.reshape(algopy.tile(x, 2)[:6], (2, 3))[:, 1:] + 1.)),
        ("trace_of_strided_view", lambda x: algopy.trace(algopy.reshape(algopy.tile(x * x, 4), (4, 4))[::2, 1::2]) * x[0]),
        # item assignment whose right-hand side NumPy broadcasts into the target (the value's adjoint is a sum over the broadcast axes)
        ("setitem_bcast_scalar", lambda x: T_setbcast(algopy, x, 0)),
        ("setitem_bcast_row", lambda x: T_setbcast(algopy, x, 1)),
        ("setitem_bcast_col", lambda x: T_setbcast(algopy, x, 2)),
        ("setitem_bcast_slice", lambda x: T_setbcast(algopy, x, 3)),
        ("setitem_bcast_overwrite", lambda x: T_setbcast(algopy, x, 4)),
        ("pow_same_node", lambda x: (lambda v: algopy.sum(v ** v))(x * x + 0.5)),
    ]


def full_api_adjoint(rep, seed, n=80):
    """Dot-product identity on programs over the whole differentiable API (relational fragment):
    <xbar(t), v(t)> = <ybar(t), F'(x(t)) v(t)> mod t^D with F'(x(t))v(t) from forward mode: the coefficient of t^(D-1+1)...
    Implemented with the standard first-order-in-epsilon trick: forward mode on x(t) + eps v(t) is not available, so the
    directional derivative is obtained from forward propagation with one extra direction: y(x + s v) differentiated by
    central differences in exact polynomial arithmetic is avoided; instead J v is computed by running the program on
    UTPM curves x(t) + h v(t) for two h and using that every coefficient is a polynomial in h of degree <= D (Richardson
    on polynomials is exact up to rounding for small D)."""
    import random
    algopy = load_algopy()
    rnd = random.Random(seed + 7)
    W22 = numpy.array([[1., 2.], [3., 5.]]); W2 = numpy.array([2., -1.])

    P_ = adjoint_programs(algopy)
    n = max(n, 2 * len(P_))          # every program at least once plain and once with every intermediate consumed again
    for it in range(n):
        name, f = P_[it % len(P_)]
        D = rnd.choice([1, 2, 3, 4]); P = rnd.choice([1, 2])
        if it < 2 * len(P_):
            D = 3 + it // len(P_)           # the first pass (plain) at D = 3, the second (every intermediate consumed again) at D = 4
        x = numpy.array([[[rnd.uniform(0.3, 1.3) for _ in range(4)] for _ in range(P)] for _ in range(D)])
        x[1:] *= 0.7
        if name == "eig_values":
            D = min(D, 2)          # documented: the general eigendecomposition supports first-order polynomials only
            x = x[:D]
        kinks = {"botched_clip": (0.5, 1.0), "reciprocal_square": (0.75,), "negative_sign": (0.75,)}.get(name, ())
        for kink in kinks:
            # piecewise smooth with kinks / jumps there: keep the base points away from them (the reference J v is a stencil in h)
            near = abs(x[0] - kink) < 0.03
            x[0][near] = kink + 0.07
        if name.endswith("mixed_pivots"):
            # directions whose zeroth coefficients need different row pivoting
            P = 2
            x = numpy.array([[[rnd.uniform(0.3, 1.3) for _ in range(4)] for _ in range(P)] for _ in range(D)])
            x[1:] *= 0.7
            x[0, 0] = [1.2, 0.3, 0.4, 1.0]          # |x0| > |x2|: no row interchange, det = 1.08
            x[0, 1] = [0.3, 1.0, 1.1, 0.2]          # |x0| < |x2|: rows interchanged, det = -1.04
        v = numpy.array([[[rnd.uniform(-1, 1) for _ in range(4)] for _ in range(P)] for _ in range(D)])
        sig = "full-api adjoint identity [%s]" % name
        rep.case(("fullapi-adj", name, it, D, P), nontrivial=True)
        rep.replayed(1)
        probe_begin()
        try:
            cg = algopy.CGraph()
            fx = algopy.Function(algopy.UTPM(x.copy()))
            fy = f(fx)
            shared = (it // len(P_)) % 2 == 1
            if shared:
                # every value of the program gets one more consumer, recorded AFTER the program: when the pullback of an
                # operation runs, the adjoints of its arguments already hold contributions (a pullback must accumulate)
                consumers = []
                for k_, nd in enumerate(list(cg.functionList)):
                    if nd is fy or type(nd.x).__name__ != "UTPM" or nd.x.data.dtype.kind != "f":
                        continue
                    consumers.append((k_, nd))
                extra = None
                for k_, nd in consumers[:30]:
                    t_ = algopy.sum(nd * nd) * (0.0625 * (k_ % 5 + 1))
                    extra = t_ if extra is None else extra + t_
                if extra is not None:
                    fy = fy + extra
                sig += " with every intermediate value consumed once more"
            cg.trace_off()
            cg.independentFunctionList = [fx]; cg.dependentFunctionList = [fy]
            ybar = algopy.UTPM(numpy.array([[rnd.uniform(-1, 1) for _ in range(P)] for _ in range(D)]).reshape(fy.x.data.shape[:2] + fy.x.data.shape[2:]))
            cg.pullback([ybar])
            xbar = fx.xbar.data
            # J v by forward mode: y(x + h v) is a polynomial in h; its linear coefficient via 5-point exact-ish stencil
            hs = [-2e-3, -1e-3, 1e-3, 2e-3]
            if shared:
                ys = []
                for h in hs:             # (the extended program exists as a graph only: forward replay, C05)
                    cg.pushforward([algopy.UTPM(x + h * v)])
                    ys.append(fy.x.data.copy())
            else:
                ys = [f(algopy.UTPM(x + h * v)).data for h in hs]
            Jv = (ys[0] - 8 * ys[1] + 8 * ys[2] - ys[3]) / (12 * 1e-3)
            # <xbar, v> and <ybar, Jv> as truncated polynomial products, per direction
            for p in range(P):
                for d in range(D):
                    lhs = sum((xbar[c, p] * v[d - c, p]).sum() for c in range(d + 1))
                    rhs = sum((ybar.data[c, p] * Jv[d - c, p]).sum() for c in range(d + 1))
                    scale = 1 + abs(lhs) + abs(rhs)
                    if abs(lhs - rhs) > 2e-6 * scale:
                        rep.violation(sig, {"D": D, "P": P, "order": d, "dir": p, "lhs": float(lhs), "rhs": float(rhs)})
                        raise StopIteration
        except StopIteration:
            pass
        except NotImplementedError as ex:
            UNSUPPORTED.add(name)          # documented: an exception instead of a wrong adjoint (C03, second sentence)
        except Exception as ex:
            if "NotImplementedError" in repr(ex):
                UNSUPPORTED.add(name)      # (the tracer wraps the pullback's exception)
            else:
                rep.violation(sig + " raises " + type(ex).__name__, {"D": D, "P": P, "what": repr(ex)[-300:]})
        probe_end(sig + " #%d" % it)


def T_setslices(algopy, x):
    b = algopy.zeros((2, 2), dtype=x)
    b[0, :] = x[:2] * x[2:]
    b[1:, 1] = x[3:] * b[0, 0]
    b[1, 0] = algopy.sin(b[0, 1])
    b[:, 0] = b[:, 0] * x[:2]
    return algopy.sum(b * b)


def T_setbcast(algopy, x, k):
    b = algopy.zeros((2, 3), dtype=x)
    W = numpy.array([[1., 2., 3.], [5., 7., 11.]])
    if k == 0:
        b[...] = x[0] * x[1]                                    # a scalar into every cell
        b[1, 1:] = x[2] * x[2]                                  # a scalar into a slice
    elif k == 1:
        b[...] = x[:3] * x[1:]                                  # a row into every row
    elif k == 2:
        b[...] = algopy.reshape(x[:2] * x[2:], (2, 1))          # a column into every column
    elif k == 3:
        b[:, 1:] = x[:1] * x[3:]                                # a length-one vector into a block
        b[:, 0] = x[1] * x[2]
    else:
        b[...] = x[3] * x[3]
        g = algopy.sin(b[0] * x[:3])                            # the broadcast contents are read by a nonlinear operation ...
        b[0:1] = g * x[0]                                       # ... and overwritten through a (1,3) <- (3,) broadcast
        b[:, 2] = b[1, 0] * x[1]
        return algopy.sum(b * b * W) + algopy.sum(g)
    return algopy.sum(b * b * W) + algopy.sum(b[0] * x[:3])


def T_buffer(algopy, x):
    b = algopy.zeros(3, dtype=x)
    b[0] = x[0] * x[1]
    g = b[0] * x[2]
    b[0] = g * x[3]
    b[1:] = x[:2] * b[0]
    return algopy.sum(b * b) + g


def validate_recorded(rep, what, repo_tests=False):
    """T leg: traces recorded from the real code in this run (and, optionally, from the repository's own tests) against TraceTracer.tla"""
    import trace_validate as TV
    named = list(TRACES)
    if repo_tests:
        named += [(x["name"], x["events"]) for x in TV.record_repo_tests() if x["events"]]
    if not named:
        raise Machinery("no traces recorded")
    n = TV.check_traces(rep, named, what)
    TV.self_test(getattr(TV.check_traces, "accepted", named))
    rep.sample({"recorded_trace": named[0][0], "first_events": named[0][1][:6]}, maxn=6)
    return n


def full_api_replays(rep, seed, n=60):
    """C05 relational fragment over the whole traceable API: re-evaluating the recorded graph at new inputs (ndarray / UTPM of any
    D, P, unrelated to the recording inputs) must give what running the same Python function directly on those inputs gives."""
    import random
    algopy = load_algopy()
    from algopy import UTPM
    rnd = random.Random(seed + 11)
    W = numpy.array([[1., 2.], [3., 5.]])

    def p_pow_traced(x, z):
        return algopy.sum((x[0:2] * x[0:2] + 1.) ** z)

    def p_buffer(x, z):
        b = algopy.zeros(3, dtype=x)
        b[0] = x[0] * z[1]; g = b[0]; b[1] = algopy.sin(g) + x[1]; b[0] = b[1] * z[0]; b[2] = g * 2.0
        return algopy.sum(b * b) + g

    def p_fft_axis(x, z):
        A = algopy.reshape(x, (2, 2))
        return algopy.real(algopy.fft.ifft(algopy.fft.fft(A, axis=0) * 2.0, axis=0)) * z[0]

    def p_views(x, z):
        A = algopy.reshape(x * x, (2, 2))
        return algopy.sum(A.T[1] * z) + algopy.sum(A[::-1, 1:], axis=0)[0] + A[1, 0] * z[-1]

    def p_linalg(x, z):
        A = algopy.reshape(x, (2, 2)) + W
        return algopy.dot(algopy.inv(A), z) + algopy.solve(A, algopy.reshape(z, (2, 1)))[:, 0] * algopy.det(A)

    def p_consts(x, z):
        return (3.0 - x[:2]) / (z * 2 + 1.5) + numpy.array([1., 2.]) * z - algopy.ones(2, dtype=z) + algopy.zeros_like(z) + algopy.exp(z * 0.1)

    def p_sum_axes(x, z):
        A = algopy.reshape(x, (2, 2))
        return algopy.sum(A * A, axis=1) * z + algopy.sum(A, axis=0) + algopy.sum(A)

    def p_special(x, z):
        return algopy.special.erf(z) * algopy.sqrt(x[:2] * x[:2] + 1.) + algopy.log1p(z * z) - algopy.tan(x[2:] * 0.3)

    def p_reflected(x, z):
        a = numpy.array([1., 2.])
        return (a * z) + (a - z) * (a / (z + 1.)) + (3.0 - x[:2]) + 2.0 / (x[2:] + 1.) + (a + z) - 1.5 * z

    def p_const_left_linalg(x, z):
        A = algopy.reshape(x, (2, 2))
        return algopy.dot(W, A)[0] + algopy.dot(A, W)[:, 1] + algopy.dot(W[0], A) + algopy.outer(W[0], z)[1] + algopy.outer(z, W[1])[:, 0]

    def p_shape_props(x, z):
        A = algopy.reshape(x, (2, 2))
        n = A.shape[0] * A.ndim + A.size          # plain integers taken from tracer nodes
        return algopy.sum(A.T * A, axis=0) * float(n) + z * len(z.x if hasattr(z, "x") else z)

    def p_zeros_ones_like(x, z):
        b = algopy.zeros_like(z); o = algopy.ones_like(z)
        b[0] = z[1] * x[0]; b[1] = b[0] + o[1]
        return b * o + algopy.zeros((2,), dtype=x) + algopy.ones(2, dtype=z)

    def p_factorizations(x, z):
        A = algopy.reshape(x, (2, 2)) + W
        Q, R = algopy.qr(A)
        L = algopy.cholesky(algopy.dot(A, A.T) + 3.0 * numpy.eye(2))
        l, V = algopy.eigh(A + A.T)
        return algopy.dot(R, z) + algopy.diag(L) * l + algopy.dot(Q.T, z)

    def p_det_family(x, z):
        A = algopy.reshape(x, (2, 2)) + W
        return z * algopy.det(A) + algopy.logdet(A) + algopy.trace(A) * algopy.prod(z) + algopy.expm(A * 0.1)[0]

    def p_rational(x, z):
        # defined for every numeric kind of plain array (float, complex, integer) and of polynomial
        b = algopy.zeros(2, dtype=x)
        b[0] = x[0] * z[1]
        b[1] = x[1] - x[3]
        return algopy.sum(x * x * z[0]) + algopy.dot(x[:2], z) * x[3] - x[1] / (x[2] + 2) + algopy.sum(b * b[::-1])

    def p_const_into_buffer(x, z):
        # non-integral constants written into a buffer whose element type comes from the input
        b = algopy.zeros(3, dtype=x)
        b[0] = 0.5
        b[1] = x[1] * 2.5
        b[2] = x[0] / 4
        return algopy.sum(b * x[:3]) + z[0] * 0.25 + b[0] * z[1]

    def p_builtin_sum(x, z):
        # Python's builtin sum starts from the integer 0 (0 + first term); the term is a view of a buffer entry overwritten later
        b = algopy.zeros(2, dtype=x)
        b[0] = x[0] * x[1]
        s1 = sum([b[0]])
        s2 = sum(b[k] * z[k] for k in range(2)) + 0
        b[0] = x[2] * z[0]
        return s1 * x[3] + b[0] + (0 + s2) + (s1 - 0) * 0.5

    def p_keywords(x, z):
        # module-level functions called with their non-default keyword / optional arguments on traced operands (the tracer's
        # triu / tril / diag take no offset k: an explicit TypeError, not generated)
        A = algopy.reshape(x, (2, 2)) * numpy.array([[1., 2.], [3., 4.]])
        w3 = numpy.array([1., -2., 3.])
        return (algopy.sum(algopy.symvec(A, 'L') * w3) + algopy.sum(algopy.symvec(A, UPLO='U') * w3[::-1]) + algopy.sum(algopy.symvec(A) * w3)
                + algopy.sum(algopy.vecsym(algopy.symvec(A, 'L') * z[0]) * W) + algopy.sum(algopy.triu(A)) - algopy.sum(algopy.tril(A)) * z[1]
                + algopy.sum(algopy.diag(A)) + algopy.sum(algopy.sum(A, axis=1) * z) + algopy.sum(algopy.tile(z, (2, 1)) * A))

    progs = [p_pow_traced, p_buffer, p_fft_axis, p_views, p_linalg, p_consts, p_sum_axes, p_special,
             p_reflected, p_const_left_linalg, p_shape_props, p_zeros_ones_like, p_factorizations, p_det_family, p_rational, p_keywords, p_const_into_buffer, p_builtin_sum]
    for it in range(n):
        f = progs[it % len(progs)]
        order = rnd.choice(["xz", "zx"])           # the order in which the independents are LISTED
        late_z = rnd.random() < 0.5                # z is wrapped after operations on x have been recorded
        rec_kind = rnd.choice(["arr", "utpm"] if f not in (p_rational, p_const_into_buffer) else ["arr", "utpm", "iarr", "iarr"])
        sig = "full-api replay [%s]" % f.__name__
        rep.case(("fullapi-replay", f.__name__, it), nontrivial=True); rep.replayed(1)
        probe_begin()
        try:
            x0 = numpy.array([0.3, 0.6, 0.9, 0.5]); z0 = numpy.array([1.2, 0.7])
            if rec_kind == "utpm":
                x0 = UTPM(x0.reshape(1, 1, 4)); z0 = UTPM(z0.reshape(1, 1, 2))
            elif rec_kind == "iarr":       # recorded with integer-typed plain arrays
                x0 = numpy.array([3, 2, 5, 1]); z0 = numpy.array([2, 3])
            cg = algopy.CGraph()
            fx = algopy.Function(x0)
            if late_z:
                pre = fx[0] * fx[1] + 1.0
                fz = algopy.Function(z0)
                fy = f(fx, fz) + pre * 0.5
                direct = lambda a, b: f(a, b) + (a[0] * a[1] + 1.0) * 0.5
            else:
                fz = algopy.Function(z0)
                fy = f(fx, fz)
                direct = f
            cg.trace_off()
            cg.independentFunctionList = [fx, fz] if order == "xz" else [fz, fx]
            cg.dependentFunctionList = [fy]
            arglist = None
            for rep_i in range(3):
                kind = rnd.choice(["arr", "utpm"] if f not in (p_rational, p_const_into_buffer) else ["carr", "iarr", "cutpm", "arr", "utpm"])
                if kind == "arr":
                    xa = numpy.array([rnd.uniform(0.2, 1.2) for _ in range(4)]); za = numpy.array([rnd.uniform(0.5, 1.5) for _ in range(2)])
                elif kind == "carr":      # plain complex arrays
                    xa = numpy.array([complex(rnd.uniform(0.2, 1.2), rnd.uniform(-1, 1)) for _ in range(4)]); za = numpy.array([complex(rnd.uniform(0.5, 1.5), rnd.uniform(-1, 1)) for _ in range(2)])
                elif kind == "iarr":      # plain integer arrays
                    xa = numpy.array([rnd.randint(1, 5) for _ in range(4)]); za = numpy.array([rnd.randint(1, 4) for _ in range(2)])
                elif kind == "cutpm":
                    D = rnd.choice([1, 2, 3]); P = rnd.choice([1, 2])
                    xa = UTPM(numpy.array([[[complex(rnd.uniform(0.2, 1.2), rnd.uniform(-1, 1)) for _ in range(4)] for _ in range(P)] for _ in range(D)]))
                    za = UTPM(numpy.array([[[complex(rnd.uniform(0.5, 1.5), rnd.uniform(-1, 1)) for _ in range(2)] for _ in range(P)] for _ in range(D)]))
                else:
                    D = rnd.choice([1, 2, 3]); P = rnd.choice([1, 2])
                    xa = UTPM(numpy.array([[[rnd.uniform(0.2, 1.2) for _ in range(4)] for _ in range(P)] for _ in range(D)]))
                    za = UTPM(numpy.array([[[rnd.uniform(0.5, 1.5) for _ in range(2)] for _ in range(P)] for _ in range(D)]))
                if arglist is None or it % 2:
                    arglist = [None, None]          # (every other program: one list object reused for all replays, entries replaced)
                arglist[0], arglist[1] = (xa, za) if order == "xz" else (za, xa)
                got = cg.function(arglist)[0]
                ref = direct(xa, za)
                gd = got.data if isinstance(got, UTPM) else numpy.asarray(got)
                rd = ref.data if isinstance(ref, UTPM) else numpy.asarray(ref)
                if type(got) is not type(ref) and not (numpy.isscalar(got) and numpy.isscalar(ref)) and not (isinstance(got, numpy.ndarray) and isinstance(ref, numpy.ndarray)):
                    if isinstance(got, UTPM) != isinstance(ref, UTPM):
                        rep.violation(sig + " result kind", {"got": type(got).__name__, "direct": type(ref).__name__, "replay_kind": kind, "recorded_with": rec_kind}); break
                if gd.shape != rd.shape or not numpy.allclose(gd, rd, rtol=1e-11, atol=1e-12):
                    rep.violation(sig + " differs from direct execution", {"replay": rep_i, "replay_kind": kind, "recorded_with": rec_kind, "independents_listed": order,
                                                                          "second_independent_wrapped_late": late_z,
                                                                          "err": float(abs(gd - rd).max()) if gd.shape == rd.shape else "shape"}); break
        except Exception as ex:
            rep.violation(sig + " raises " + type(ex).__name__, {"what": repr(ex)[-300:], "recorded_with": rec_kind})
        probe_end(sig + " #%d" % it)
