"""C13 Shape-manipulating operations act slice-wise like NumPy, with view semantics.

Spec: NDA (arrays as explicit cell lists on a heap; basic indexing, axis permutation, reshape, broadcasting defined from
NumPy's rules) + UTPMachine shape actions (getitem, setitem with UTPM / array / scalar right-hand sides, transpose,
reshape, sum(axis), neg/clone/zeros_like).  M: TypeOK, Frame, ViewSemantics on every behaviour of the bounded
instance.  R: every behaviour replayed; after each action every object's shape, values and *memory sharing* (cell
identity = byte address) is compared with the spec state, and the same NumPy operation is applied to every coefficient
slice (d,p) of the real operand as a cross-check of the spec operator.
"""
import numpy
from common import *
import utpm_replay as U


def fft_axes(rep, algopy, seed):
    """fft / ifft along every axis (negative ones included) and with the length argument n: NumPy on every coefficient slice"""
    from algopy import UTPM
    rng = numpy.random.RandomState((seed + 9) % 2 ** 31)
    for shp in ((4,), (3, 4), (2, 3, 2)):
        for cplx in (False, True):
            D, P = 2, 2
            data = rng.randint(-3, 4, size=(D, P) + shp).astype(float)
            if cplx:
                data = data + 1j * rng.randint(-3, 4, size=(D, P) + shp)
            x = UTPM(data.copy())
            for ax in range(-len(shp), len(shp)):
                for n in (None, shp[ax], 2, shp[ax] + 2):
                    for nm, f, npf in (("fft", algopy.fft.fft, numpy.fft.fft), ("ifft", algopy.fft.ifft, numpy.fft.ifft)):
                        rep.case(("fft-axes", nm, shp, cplx, ax, n), nontrivial=True)
                        kw = {"axis": ax} if n is None else {"axis": ax, "n": n}
                        ref = numpy.array([[npf(data[d, p], **kw) for p in range(P)] for d in range(D)])
                        try:
                            y = f(x, **kw)
                            if y.data.shape != ref.shape or not numpy.allclose(y.data, ref, rtol=1e-12, atol=1e-12):
                                rep.violation("%s along axis %d%s differs from numpy.fft.%s on the coefficient slices" % (nm, ax, "" if n is None else " with n", nm), {"shape": list(shp), "n": n})
                        except Exception as ex:
                            if n is not None and n != shp[ax]:
                                rep.violation("%s with n different from the length of the axis raises %s" % (nm, type(ex).__name__), {"shape": list(shp), "axis": ax, "n": n})
                            else:
                                rep.violation("%s along axis %d raises %s" % (nm, ax, type(ex).__name__), {"shape": list(shp), "n": n, "what": repr(ex)[-200:]})
            if not numpy.array_equal(x.data, data):
                rep.violation("fft modifies its argument", {"shape": list(shp)})


def run(rep, tier, seed):
    q = tier == "quick"
    configs = [
        dict(name="mat23_idx", D=2, P=1, pool="PoolMat", acts="ActsShape", idx="IdxMat", rs="RsCat", maxlen=1, maxobjs=6),
        dict(name="vec4_len2", D=2, P=2, pool="PoolVec4", acts="ActsShape", idx="IdxVec", rs="RsCat", maxlen=2, maxobjs=6),
        dict(name="3d_P2", D=2, P=2, pool="Pool3D", acts="ActsShape", idx="IdxMat", rs="RsCat", maxlen=1, maxobjs=6),
        dict(name="mat22_len2", D=2, P=1, pool="PoolMat22", acts="ActsShape", idx="IdxSmall", rs="RsCat", maxlen=2, maxobjs=6),
        dict(name="more_mat22", D=2, P=2, pool="PoolMat22", acts="ActsMore", rs="RsCat", tiles="Tiles", maxlen=1, maxobjs=6),
        dict(name="more_mat23", D=2, P=1, pool="PoolMat", acts="ActsMore", rs="RsCat", tiles="Tiles", maxlen=1, maxobjs=6),
        dict(name="more_rectangular", D=2, P=2, pool="PoolRect", acts="ActsMore", rs="RsCat", tiles="Tiles", maxlen=1, maxobjs=6),
        dict(name="more_3d", D=2, P=2, pool="Pool3D", acts="ActsMore", rs="RsCat", tiles="Tiles", maxlen=1, maxobjs=6),
        dict(name="more_scalar", D=2, P=1, pool="PoolScal", acts="ActsMore", rs="RsCat", tiles="Tiles", maxlen=2 if not q else 1, maxobjs=6),
        dict(name="complex_ops", module="MC_CUTPM", D=2, P=2, pool="PoolCx3", acts="ActsCplx", idx="IdxSmall", maxlen=1 if q else 2, maxobjs=6),
        dict(name="scalar_P2", D=3, P=2, pool="PoolScal", acts="ActsShape", idx="IdxVec", rs="RsCat", maxlen=1, maxobjs=6),
        dict(name="inplace_on_views", D=2, P=1, pool="PoolMat22", acts="ActsAliasS", idx="IdxSmall", scal="ScalOne", maxlen=2, maxobjs=5),
    ]
    if not q:
        configs += [
            dict(name="mat23_len2", D=2, P=1, pool="PoolMat", acts="ActsShape", idx="IdxMat", rs="RsCat", maxlen=2, maxobjs=6),
            dict(name="3d_len2", D=2, P=1, pool="Pool3D", acts="ActsShape", idx="IdxMat", rs="RsCat", maxlen=2, maxobjs=6),
            dict(name="vec4_sim_len4", D=2, P=1, pool="PoolVec4", acts="ActsShape", idx="IdxVec", rs="RsCat", maxlen=4, maxobjs=8,
                 simulate=1200, depth=5),
            dict(name="mat22_sim_len4", D=2, P=2, pool="PoolMat22", acts="ActsShape", idx="IdxMat", rs="RsCat", maxlen=4, maxobjs=8,
                 simulate=800, depth=5),
        ]
    U.machine_check(rep, configs, "C13", variants=(0, 1))
    fft_axes(rep, load_algopy(), seed)
    U.dirty_out_check(rep, load_algopy(), ("diag", "diag_k1", "diag_extract", "tril", "triu"), seed)
    U.self_test(rep)
    rep.assumptions += ["NumPy itself is the executable reference for each slice operation (cross-check of the NDA operators)",
                        "reshape is generated only where NumPy's view/copy choice is unambiguous (contiguous data -> view, transposed matrix -> copy)"]
    return rep.finish("one case = one maximal behaviour of the UTPMachine spec restricted to shape actions x API variant "
                      "(method / algopy-level function, scalar kinds); non-trivial = at least one action; distinct by (config, behaviour, variant)")
