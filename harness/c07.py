"""C07 Linear-algebra functions propagate matrix Taylor polynomials correctly.

Spec: LinAlg.tla - arrays over the ring Q[t]/(t^D); dot for every rank combination from NumPy's rule, outer, Leibniz
determinant, inverse = adjugate/determinant, solve, trace, higher coefficients of log det, exp of nilpotent matrices.
M: A inv(A) = inv(A) A = I, det(A) inv(A) = adj(A), A solve(A,B) = B, det multiplicative and = product of the diagonal
for triangular matrices, (log det)' = det'/det, transpose rule of dot, outer = column x row, exp(A) exp(-A) = I - all as
identities mod t^D on every instance.  R: every instance (base matrices incl. ones that need row pivoting, integer
higher coefficients, multi-column and vector right-hand sides, operand kinds UTPM/UTPM, UTPM/ndarray, ndarray/UTPM,
instances packed pairwise as two directions with different base matrices) is run through algopy and compared with the
spec's exact rational series.
"""
import inspect
import numpy, scipy.linalg
from common import *

CFG = """CONSTANTS Dg = %d
 Q = %d
 Emit = TRUE
 FirstBase = %d
 ZeroOrd = %d
INIT Init
NEXT Next
INVARIANT InvOK
INVARIANT SolveOK
INVARIANT SolveVecOK
INVARIANT DetOK
INVARIANT LogDetOK
INVARIANT TraceOK
INVARIANT DotOK2
INVARIANT OuterOK
INVARIANT ExpmOK
INVARIANT EmitState
CHECK_DEADLOCK FALSE
"""


def arr_to_data(a, D):
    """[shape, v: list of series] -> ndarray (D,) + shape"""
    shape = tuple(a["shape"])
    vals = numpy.array([[float(to_frac(c)) for c in s] for s in a["v"]])      # (size, D)
    return vals.T.reshape((D,) + shape)


def run(rep, tier, seed):
    algopy = load_algopy()
    from algopy import UTPM
    q = tier == "quick"
    runs = [(3, 3, 1, 0), (4, 2, 1, 0), (5, 1, 10, 0), (4, 1, 1, 1), (4, 1, 1, 2)] if q else [(3, 6, 1, 0), (4, 4, 1, 0), (5, 3, 10, 0), (4, 3, 1, 1), (4, 3, 1, 2), (5, 2, 10, 3)]
    recs = []
    stale_out = {}
    for (D, Q, fb, zo) in runs:
        res = tlc_ok(run_tlc("MC_LinAlg", CFG % (D, Q, fb, zo), workers=16, timeout=2400), "MC_LinAlg D=%d" % D)
        rep.add_tlc(res, "MC_LinAlg_D%d_zero%d" % (D, zo))
        for r in res.records:
            r["D"] = D; r["zo"] = zo
        recs += res.records
    if not recs:
        raise Machinery("no instances")
    # group instances of equal kind / shapes / D so that two of them form the two directions of one call
    groups = {}
    for r in recs:
        key = (r["kind"], r["D"], tuple(tuple(a["shape"]) for a in r["inp"]), r["zo"])
        groups.setdefault(key, []).append(r)
    for (kind, D, shapes, zo), rs in sorted(groups.items()):
        if kind == "solve_vec":
            continue    # UTPM.solve documents (explicit ValueError) that a 1-D right-hand side is not supported; the spec identity is still model-checked
        rs = sorted(rs, key=lambda r: (r["q"], r["b"]))
        packs = [[r] for r in rs] + [[rs[i], rs[(i + 1 + len(rs) // 2) % len(rs)]] for i in range(len(rs)) if len(rs) > 1]
        for pack in packs:
            P = len(pack)
            ins = []
            for ai in range(len(pack[0]["inp"])):
                data = numpy.stack([arr_to_data(r["inp"][ai], D) for r in pack], axis=1)        # (D,P)+shape
                ins.append(data)
            exp = numpy.stack([arr_to_data(r["out"], D) for r in pack], axis=1)
            const_idx = {"dot_UA": 1, "dot_AU": 0, "outer_UA": 1, "outer_AU": 0, "solve_AU": 0, "solve_UA": 1}.get(kind)
            if const_idx is not None and P > 1 and not numpy.array_equal(ins[const_idx][0, 0], ins[const_idx][0, 1]):
                continue        # a constant operand is shared by all directions
            args = []
            for ai, d_ in enumerate(ins):
                args.append(d_[0, 0].copy() if ai == const_idx else UTPM(d_.copy()))
            before = [a.data.copy() if isinstance(a, UTPM) else a.copy() for a in args]
            sig = "%s%s" % (kind, "" if not kind.startswith("dot") else " " + "x".join(str(s) for s in shapes))
            det = {"kind": kind, "D": D, "P": P, "b": [r["b"] for r in pack], "q": [r["q"] for r in pack], "shapes": shapes}
            rep.case((kind, D, zo, tuple((r["b"], r["q"]) for r in pack)), nontrivial=D >= 2)
            rep.replayed(1)
            try:
                base = kind.split("_")[0]
                if base == "inv":
                    got = algopy.inv(*args)
                elif base == "solve":
                    got = algopy.solve(*args)
                elif base == "det":
                    got = algopy.det(*args)
                elif base == "logdet":
                    got = algopy.logdet(*args)
                elif base == "trace":
                    got = algopy.trace(*args)
                elif base == "dot":
                    got = algopy.dot(*args)
                elif base == "outer":
                    got = algopy.outer(*args)
                elif base == "expm":
                    got = algopy.expm(*args)
                gd = got.data
                # the other public forms of the same function: class level UTPM.f(..) and, where it exists, the method x.f(..)
                if base != "expm":
                    forms = [("UTPM.%s" % base, lambda: getattr(UTPM, base)(*args))]
                    if isinstance(args[0], UTPM) and hasattr(args[0], base) and not isinstance(inspect.getattr_static(UTPM, base), classmethod):
                        forms.append(("x.%s" % base, lambda: getattr(args[0], base)(*args[1:])))
                    for fname, call in forms:
                        alt = call()
                        if alt.data.shape != gd.shape or not numpy.array_equal(alt.data, gd, equal_nan=True):
                            rep.violation(sig + ": %s differs from algopy.%s" % (fname, base), det)
                if base == "solve" and all(isinstance(a, UTPM) for a in args):
                    # the result buffer of an earlier call handed back through out=: its old content must not matter
                    key = (kind, gd.shape)
                    stale = stale_out.get(key)
                    if stale is not None:
                        o_ = UTPM.solve(args[0], args[1], out=stale)
                        if o_.data.shape != gd.shape or not numpy.allclose(o_.data, gd, rtol=1e-12, atol=1e-12):
                            rep.violation(sig + ": out= buffer holding an earlier result gives another solution", det)
                    stale_out[key] = UTPM(gd.copy() * 3.0 + 1.0)
                if kind == "logdet":
                    exp = exp.copy()
                    for p in range(P):
                        exp[0, p] = numpy.log(abs(numpy.linalg.det(ins[0][0, p])))
                if gd.shape != exp.shape:
                    rep.violation(sig + " shape", dict(det, got=list(gd.shape), expected=list(exp.shape)))
                else:
                    scale = 1 + abs(exp).max()
                    err = abs(gd - exp)
                    if not (err.max() <= 1e-9 * scale):
                        i = numpy.unravel_index(numpy.argmax(err), err.shape)
                        rep.violation(sig, dict(det, order=int(i[0]), direction=int(i[1]), got=float(numpy.real(gd[i])), expected=float(exp[i])))
                for a, b0 in zip(args, before):
                    if not numpy.array_equal(a.data if isinstance(a, UTPM) else a, b0):
                        rep.violation(sig + " modifies its argument", det)
            except Exception as ex:
                rep.violation(sig + " raises " + type(ex).__name__, dict(det, what=repr(ex)[-300:]))
    # expm on families with a known closed form through C01-validated scalar functions (relational)
    rng = numpy.random.RandomState(seed % 2 ** 31)
    for it in range(6 if q else 40):
        D = int(rng.randint(2, 5)); P = int(rng.randint(1, 3))
        a = rng.randint(-2, 3, size=(D, P, 2)).astype(float) * 0.25
        th = rng.randint(-2, 3, size=(D, P)).astype(float) * 0.25
        try:
            A = numpy.zeros((D, P, 2, 2)); A[:, :, 0, 0] = a[:, :, 0]; A[:, :, 1, 1] = a[:, :, 1]
            E = algopy.expm(UTPM(A)).data
            ex = algopy.exp(UTPM(a)).data
            ref = numpy.zeros_like(A); ref[:, :, 0, 0] = ex[:, :, 0]; ref[:, :, 1, 1] = ex[:, :, 1]
            if abs(E - ref).max() > 1e-9 * (1 + abs(ref).max()):
                rep.violation("expm diagonal", {"D": D, "P": P, "err": float(abs(E - ref).max())})
            R = numpy.zeros((D, P, 2, 2)); R[:, :, 0, 1] = -th; R[:, :, 1, 0] = th
            E = algopy.expm(UTPM(R)).data
            c, s = algopy.cos(UTPM(th)).data, algopy.sin(UTPM(th)).data
            ref = numpy.zeros_like(R); ref[:, :, 0, 0] = c; ref[:, :, 1, 1] = c; ref[:, :, 0, 1] = -s; ref[:, :, 1, 0] = s
            if abs(E - ref).max() > 1e-9 * (1 + abs(ref).max()):
                rep.violation("expm rotation generator", {"D": D, "P": P, "err": float(abs(E - ref).max())})
            # the other public entry points of the matrix exponential: every Pade order and the scaling-and-squaring variant
            Rs = R * 0.125            # (small norm: the low Pade orders are accurate to rounding there)
            ths = UTPM(th * 0.125)
            c, s = algopy.cos(ths).data, algopy.sin(ths).data
            ref = numpy.zeros_like(R); ref[:, :, 0, 0] = c; ref[:, :, 1, 1] = c; ref[:, :, 0, 1] = -s; ref[:, :, 1, 0] = s
            for nm, call in [("expm_pade(q=%d)" % q_, (lambda M, q_=q_: algopy.expm_pade(M, q_))) for q_ in (5, 7, 9, 13)] + [("expm_higham_2005", algopy.expm_higham_2005)]:
                Eq = call(UTPM(Rs.copy())).data
                if abs(Eq - ref).max() > 1e-9 * (1 + abs(ref).max()):
                    rep.violation(nm + " rotation generator", {"D": D, "P": P, "err": float(abs(Eq - ref).max())})
        except Exception as ex_:
            rep.violation("expm raises " + type(ex_).__name__, {"what": repr(ex_)[-300:]})
        rep.case(("expm-rel", it), nontrivial=True)
    import utpm_replay as U
    U.dirty_out_check(rep, algopy, ("dot", "dot_mv", "outer"), seed)
    r0 = next(r for r in recs if r["kind"] == "inv" and r["b"] == 2)
    rep.sample({"kind": "inv", "b": r0["b"], "q": r0["q"], "A": r0["inp"][0], "inv": r0["out"]})
    # binding self-test
    D = r0["D"]
    A = UTPM(arr_to_data(r0["inp"][0], D).reshape((D, 1, 2, 2)))
    e = arr_to_data(r0["out"], D).reshape((D, 1, 2, 2)); e[D - 1, 0, 0, 0] += 0.5
    if abs(algopy.inv(A).data - e).max() <= 1e-9 * (1 + abs(e).max()):
        raise Machinery("self-test: corrupted inverse not detected")
    rep.assumptions += ["log|det A_0| (zeroth coefficient of logdet) from numpy.linalg.det", "expm on diagonal / rotation generators is compared with algopy.exp/sin/cos (C01-validated), nilpotent matrices exactly"]
    return rep.finish("one case = (function, base matrix / rank combination, coefficient pattern) alone and packed pairwise as two "
                      "directions; non-trivial = D >= 2")
