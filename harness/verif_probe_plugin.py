"""pytest plugin: records one trace per test of the repository under the run-time probe (ALGOPY_VERIF_PROBE=1)."""
import os, json, sys
sys.path.insert(0, os.path.dirname(os.path.abspath(__file__)))
import probe
import pytest

_traces = []


def pytest_configure(config):
    probe.install()


@pytest.hookimpl(hookwrapper=True)
def pytest_runtest_call(item):
    probe.reset()
    # every trace starts from the initial state of the specification: no graph is recording
    # (Function.cgraph is a class attribute that would otherwise leak from the previous test)
    from algopy.tracer.tracer import Function
    Function.cgraph = None
    outcome = yield
    if probe.EVENTS:
        _traces.append({"name": item.nodeid, "passed": outcome.excinfo is None, "events": list(probe.EVENTS)})
    probe.reset()


def pytest_sessionfinish(session, exitstatus):
    out = os.environ.get("ALGOPY_VERIF_TRACE_OUT")
    if out:
        with open(out, "w") as f:
            json.dump(_traces, f)
