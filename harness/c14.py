"""C14 Operands are never modified; aliased and in-place forms are safe.

Spec: UTPMachine.  Frame (action property): an action that is not in place changes no existing heap cell and no object;
an in-place action changes only cells of its left operand.  In-place and self-aliased forms are defined from the
PRE-state (x op= x, x op= view(x), x op= x.T), so the expected result is that of an independent copy by construction.
R: behaviours mixing views (getitem, transpose) with binary and in-place operators are replayed; after each action
EVERY object (operands included) is compared with the spec state, so a modified operand is a value mismatch on
that operand.  The C01 replay additionally checks that each elementary function leaves its argument bit-identical.
"""
from common import *
import utpm_replay as U


def api_immutability(rep, seed):
    """every public operation / function / decomposition, and every pullback function called directly, leaves the
    coefficient data of its arguments bit-identical (only the `out` adjoints of a pullback are written)"""
    import numpy
    algopy = load_algopy()
    from algopy import UTPM
    S = algopy.special
    rng = numpy.random.RandomState(seed % 2 ** 31)
    A0 = numpy.array([[3., 1., 0.5], [1., 4., 1.], [0.5, 1., 5.]])

    def fresh(shape=(3, 3), D=3, P=2, pos=False, zero_lead=False):
        d = rng.uniform(-1, 1, size=(D, P) + shape)
        if pos:
            d[0] = abs(d[0]) + 0.5
        if zero_lead:
            d[0, :, 0] = 0.0
        return UTPM(d)

    fwd = [("x+y", lambda x, y: x + y), ("x-y", lambda x, y: x - y), ("x*y", lambda x, y: x * y), ("x/y", lambda x, y: x / (y * y + 1.)),
           ("x//y", lambda x, y: x // y), ("x//y zero leading coefficient", lambda x, y: x // zl(y)), ("x**y", lambda x, y: (x * x + 1.) ** y),
           ("x**3", lambda x, y: x ** 3), ("2**x", lambda x, y: 2. ** x), ("dot", algopy.dot), ("outer", lambda x, y: algopy.outer(x[0], y[1])),
           ("solve", lambda x, y: algopy.solve(x + A0, y)), ("inv", lambda x, y: algopy.inv(x + A0)), ("det", lambda x, y: algopy.det(x)),
           ("logdet", lambda x, y: algopy.logdet(x + A0)), ("qr", lambda x, y: algopy.qr(x)[0]), ("qr_full", lambda x, y: algopy.qr_full(x[:, :2])[0]),
           ("cholesky", lambda x, y: algopy.cholesky(algopy.dot(x, x.T) + A0)), ("lu", lambda x, y: algopy.lu(x)[1]), ("eigh", lambda x, y: algopy.eigh(x + x.T)[0]),
           ("eig", lambda x, y: algopy.eig(UTPM((x + A0).data[:2]))[0]), ("svd", lambda x, y: algopy.svd(x)[1]), ("expm", lambda x, y: algopy.expm(x * 0.2)),
           ("sum", lambda x, y: algopy.sum(x, axis=0)), ("prod", lambda x, y: algopy.prod(x[0])), ("trace", lambda x, y: algopy.trace(x)),
           ("diag", lambda x, y: algopy.diag(x)), ("triu", lambda x, y: algopy.triu(x)), ("tile", lambda x, y: algopy.tile(x, 2)), ("reshape", lambda x, y: algopy.reshape(x, (9,))),
           ("symvec", lambda x, y: algopy.symvec(x)), ("fft", lambda x, y: algopy.fft.fft(x)), ("ifft", lambda x, y: algopy.fft.ifft(x)),
           ("minimum", lambda x, y: algopy.minimum(x, y)), ("maximum", lambda x, y: algopy.maximum(x, y)), ("abs", lambda x, y: abs(x)), ("neg", lambda x, y: -x),
           ("x<y", lambda x, y: x < y), ("x==y", lambda x, y: x == y), ("max", lambda x, y: UTPM.max(x[0])), ("shift", lambda x, y: x.shift(1)),
           ("extract_hess_vec", lambda x, y: UTPM.extract_hess_vec(1, UTPM(x.data.reshape(3, -1)[:, :3].copy()) if False else hv(x))),
           ("extract_jacobian", lambda x, y: UTPM.extract_jacobian(x)), ("extract_hessian", lambda x, y: UTPM.extract_hessian(2, hs(x)))]
    for name in ("exp", "expm1", "log", "log1p", "sqrt", "sin", "cos", "tan", "arcsin", "arccos", "arctan", "sinh", "cosh", "tanh", "sign", "absolute", "square", "negative", "reciprocal"):
        fwd.append((name, lambda x, y, name=name: getattr(algopy, name)(dom(x, name))))
    for name in ("erf", "erfi", "dawsn", "logit", "expit", "gammaln", "psi"):
        fwd.append(("special." + name, lambda x, y, name=name: getattr(S, name)(dom(x, name))))

    def zl(y):
        z = y.clone(); z.data[0, :, 0] = 0.0; return z

    def hv(x):
        return UTPM(x.data.reshape(3, -1)[:, :3].copy().reshape(3, 3))

    def hs(x):
        return UTPM(x.data.reshape(3, -1)[:, :3].copy())

    def dom(x, name):
        if name in ("log", "sqrt", "reciprocal", "gammaln", "psi", "log1p"):
            z = x.clone(); z.data[0] = abs(z.data[0]) + 0.5; return z
        if name in ("arcsin", "arccos", "logit"):
            z = x.clone(); z.data[0] = abs(z.data[0]) * 0.4 + 0.3; return z
        return x
    for name, f in fwd:
        x, y = fresh(), fresh()
        if name.startswith("x//y"):
            x, y = fresh(shape=(3,), D=4), fresh(shape=(3,), D=4)
        if name in ("extract_hess_vec",):
            holder = {}
            def f2(x, y, holder=holder):
                holder["u"] = hv(x); holder["b"] = holder["u"].data.copy()
                r = UTPM.extract_hess_vec(1, holder["u"]); r2 = UTPM.extract_hess_vec(1, holder["u"])
                if not numpy.array_equal(holder["u"].data, holder["b"]) or not numpy.array_equal(r, r2):
                    raise AssertionError("argument modified")
                return r
            f = f2
        bx, by = x.data.copy(), y.data.copy()
        rep.case(("immutability", name), nontrivial=True); rep.replayed(1)
        try:
            f(x, y)
        except AssertionError:
            rep.violation("%s modifies its argument" % name, {}); continue
        except NotImplementedError:
            continue
        except Exception as ex:
            if name.startswith("x//y"):
                continue
            rep.violation("%s raises %s" % (name, type(ex).__name__), {"what": repr(ex)[-200:]}); continue
        if not (numpy.array_equal(x.data, bx) and numpy.array_equal(y.data, by)):
            rep.violation("%s modifies its argument" % name, {})
    # operands that are transposed views of another polynomial (Fortran-ordered slices): neither the view nor its parent may change
    for name, f in (("det", algopy.det), ("logdet", lambda a: algopy.logdet(algopy.dot(a, a.T) + A0)), ("inv", lambda a: algopy.inv(a + A0)),
                    ("lu", lambda a: algopy.lu(a)[1]), ("qr", lambda a: algopy.qr(a)[0]), ("solve", lambda a: algopy.solve(a + A0, a)),
                    ("eigh", lambda a: algopy.eigh(a + a.T)[0]), ("cholesky", lambda a: algopy.cholesky(algopy.dot(a, a.T) + A0)),
                    ("expm", lambda a: algopy.expm(a * 0.2)), ("dot", lambda a: algopy.dot(a, a)), ("svd", lambda a: algopy.svd(a)[1])):
        B = fresh(); X = B.T
        bb = B.data.copy()
        rep.case(("immutability", name + " of a transposed view"), nontrivial=True); rep.replayed(1)
        try:
            r1 = f(X); r2 = f(X)
        except Exception as ex:
            rep.violation("%s of a transposed view raises %s" % (name, type(ex).__name__), {"what": repr(ex)[-200:]}); continue
        if not numpy.array_equal(B.data, bb):
            rep.violation("%s modifies its argument (transposed view)" % name, {})
        elif not numpy.allclose(r1.data, r2.data, rtol=1e-12, atol=1e-13):
            rep.violation("%s: second call on the same (transposed) object differs" % name, {})
    # pullback functions called directly: (ybar, x, y) and (zbar, x, y, z) are inputs, only `out` is written
    un = ["exp", "expm1", "log", "log1p", "sqrt", "sin", "cos", "tan", "square", "reciprocal", "negative", "absolute", "sign", "tanh", "arctan"]
    for name in un:
        pb = getattr(UTPM, "pb_" + name, None)
        if pb is None:
            continue
        x = dom(fresh(), name); y = getattr(algopy, name)(x); ybar = fresh(); xbar = x.zeros_like()
        snap = [x.data.copy(), y.data.copy(), ybar.data.copy()]
        rep.case(("immutability", "pb_" + name), nontrivial=True); rep.replayed(1)
        try:
            pb(ybar, x, y, out=(xbar,))
        except Exception as ex:
            continue
        if not all(numpy.array_equal(a, b) for a, b in zip(snap, [x.data, y.data, ybar.data])):
            rep.violation("pb_%s modifies the forward values or the seed" % name, {})
    import operator
    for name, op in (("add", operator.add), ("sub", operator.sub), ("mul", operator.mul), ("truediv", operator.truediv), ("dot", algopy.dot)):
        pb = getattr(UTPM, "pb_" + name)
        x, y = fresh(), fresh(pos=True)
        z = op(x, y); zbar = fresh(); xbar, ybar = x.zeros_like(), y.zeros_like()
        snap = [x.data.copy(), y.data.copy(), z.data.copy(), zbar.data.copy()]
        rep.case(("immutability", "pb_" + name), nontrivial=True); rep.replayed(1)
        try:
            pb(zbar, x, y, z, out=(xbar, ybar))
        except Exception as ex:
            rep.violation("pb_%s raises %s" % (name, type(ex).__name__), {"what": repr(ex)[-200:]}); continue
        if not all(numpy.array_equal(a, b) for a, b in zip(snap, [x.data, y.data, z.data, zbar.data])):
            rep.violation("pb_%s modifies the forward values or the seed" % name, {})
    for name, f in (("inv", lambda x: algopy.inv(x + A0)), ("det", lambda x: algopy.det(x + A0)), ("trace", algopy.trace), ("transpose", lambda x: x.T),
                    ("cholesky", lambda x: algopy.cholesky(algopy.dot(x, x.T) + A0))):
        pb = getattr(UTPM, "pb_" + name, None)
        if pb is None:
            continue
        x0 = fresh()
        xa = (x0 + A0) if name in ("inv", "det") else (algopy.dot(x0, x0.T) + A0 if name == "cholesky" else x0)
        y = {"inv": algopy.inv, "det": algopy.det, "trace": algopy.trace, "transpose": lambda a: a.T, "cholesky": algopy.cholesky}[name](xa)
        ybar = UTPM(rng.uniform(-1, 1, size=y.data.shape)); xbar = xa.zeros_like()
        snap = [xa.data.copy(), y.data.copy(), ybar.data.copy()]
        rep.case(("immutability", "pb_" + name), nontrivial=True); rep.replayed(1)
        try:
            pb(ybar, xa, y, out=(xbar,))
        except Exception:
            continue
        if not all(numpy.array_equal(a, b) for a, b in zip(snap, [xa.data, y.data, ybar.data])):
            rep.violation("pb_%s modifies the forward values or the seed" % name, {})


def run(rep, tier, seed):
    q = tier == "quick"
    configs = [
        dict(name="alias_vec4_D3", D=3, P=1, pool="PoolVec4", acts="ActsAlias", idx="IdxSmall", maxlen=2, maxobjs=5),
        dict(name="alias_mat22_D3P2", D=3, P=2, pool="PoolMat22", acts="ActsAlias", idx="IdxSmall", maxlen=2, maxobjs=5),
        dict(name="arith_frame_D2", D=2, P=2, pool="PoolVec2", acts="ActsArith", scal="ScalSet", maxlen=1),
        dict(name="alias_D4", D=4, P=1, pool="PoolMat22", acts="ActsAlias", idx="IdxSmall", maxlen=1, maxobjs=5),
        dict(name="alias_inplace_scalar_array", D=2, P=2, pool="PoolMat22", acts="ActsAliasS", idx="IdxSmall", scal="ScalOne", maxlen=2, maxobjs=5),
    ]
    if not q:
        configs += [
            dict(name="alias_vec4_len3", D=3, P=1, pool="PoolVec4", acts="ActsAlias", idx="IdxSmall", maxlen=3, maxobjs=5),
            dict(name="alias_mat22_sim", D=3, P=2, pool="PoolMat22", acts="ActsAlias", idx="IdxMat", maxlen=4, maxobjs=7,
                 simulate=4000, depth=5),
            dict(name="all_sim", D=2, P=1, pool="PoolMat22", acts="ActsAll", idx="IdxSmall", rs="RsCat", maxlen=4, maxobjs=7,
                 simulate=4000, depth=5),
        ]
    U.machine_check(rep, configs, "C14", variants=(0,))
    api_immutability(rep, seed)
    U.self_test(rep)
    return rep.finish("one case = one maximal behaviour over {getitem, transpose, x op y, x op= y, x[ix] = y} incl. both operands the "
                      "same object or views of each other; non-trivial = at least one action; distinct by (config, behaviour)")
