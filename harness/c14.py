"""C14 Operands are never modified; aliased and in-place forms are safe.

Spec: UTPMachine.  Frame (action property): an action that is not in place changes no existing heap cell and no object;
an in-place action changes only cells of its left operand.  In-place and self-aliased forms are defined from the
PRE-state (x op= x, x op= view(x), x op= x.T), so the expected result is that of an independent copy by construction.
R: behaviours mixing views (getitem, transpose) with binary and in-place operators are replayed; after each action
EVERY object (operands included) is compared with the spec state, so a modified operand is a value mismatch on
that operand.  The C01 replay additionally checks that each elementary function leaves its argument bit-identical.
"""
from common import *
import utpm_replay as U


def run(rep, tier, seed):
    q = tier == "quick"
    configs = [
        dict(name="alias_vec4_D3", D=3, P=1, pool="PoolVec4", acts="ActsAlias", idx="IdxSmall", maxlen=2, maxobjs=5),
        dict(name="alias_mat22_D3P2", D=3, P=2, pool="PoolMat22", acts="ActsAlias", idx="IdxSmall", maxlen=2, maxobjs=5),
        dict(name="arith_frame_D2", D=2, P=2, pool="PoolVec2", acts="ActsArith", scal="ScalSet", maxlen=1),
        dict(name="alias_D4", D=4, P=1, pool="PoolMat22", acts="ActsAlias", idx="IdxSmall", maxlen=1, maxobjs=5),
    ]
    if not q:
        configs += [
            dict(name="alias_vec4_len3", D=3, P=1, pool="PoolVec4", acts="ActsAlias", idx="IdxSmall", maxlen=3, maxobjs=5),
            dict(name="alias_mat22_sim", D=3, P=2, pool="PoolMat22", acts="ActsAlias", idx="IdxMat", maxlen=4, maxobjs=7,
                 simulate=4000, depth=5),
            dict(name="all_sim", D=2, P=1, pool="PoolMat22", acts="ActsAll", idx="IdxSmall", rs="RsCat", maxlen=4, maxobjs=7,
                 simulate=4000, depth=5),
        ]
    U.machine_check(rep, configs, "C14", variants=(0,))
    U.self_test(rep)
    return rep.finish("one case = one maximal behaviour over {getitem, transpose, x op y, x op= y, x[ix] = y} incl. both operands the "
                      "same object or views of each other; non-trivial = at least one action; distinct by (config, behaviour)")
