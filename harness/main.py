"""./check <Cxx> [--tier quick|thorough] [--replay file]"""
import sys, os, importlib, traceback
sys.path.insert(0, os.path.dirname(os.path.abspath(__file__)))
import common


def main(argv):
    if not argv:
        print(__doc__); return 2
    pid = argv[0].upper()
    tier = os.environ.get("VERIF_TIER", "quick")
    replay = None
    i = 1
    while i < len(argv):
        if argv[i] == "--tier":
            tier = argv[i + 1]; i += 2
        elif argv[i] == "--replay":
            replay = argv[i + 1]; i += 2
        else:
            print("unknown argument", argv[i]); return 2
    seed = int(os.environ.get("VERIF_SEED", "20260926"))
    try:
        mod = importlib.import_module(pid.lower())
    except ImportError as e:
        print("no check for", pid, e); return 2
    rep = common.Reporter(pid, tier, seed)
    try:
        common.load_algopy()
        if replay:
            return mod.replay(rep, replay)
        return mod.run(rep, tier, seed)
    except common.Machinery as e:
        print("MACHINERY FAILURE (%s): %s" % (pid, e))
        return 2
    except Exception:
        traceback.print_exc()
        print("MACHINERY FAILURE (%s): unexpected exception in the harness" % pid)
        return 2


if __name__ == "__main__":
    sys.exit(main(sys.argv[1:]))
