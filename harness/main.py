"""./check <Cxx> [--tier quick|thorough] [--replay file]"""
import sys, os, importlib, traceback
sys.path.insert(0, os.path.dirname(os.path.abspath(__file__)))
import common


def main(argv):
    if not argv:
        print(__doc__); return 2
    pid = argv[0].upper()
    tier = os.environ.get("VERIF_TIER", "quick")
    replay = None
    i = 1
    while i < len(argv):
        if argv[i] == "--tier":
            tier = argv[i + 1]; i += 2
        elif argv[i] == "--replay":
            replay = argv[i + 1]; i += 2
        else:
            print("unknown argument", argv[i]); return 2
    seed = int(os.environ.get("VERIF_SEED", "20260926"))
    try:
        mod = importlib.import_module(pid.lower())
    except ImportError as e:
        print("no check for", pid, e); return 2
    rep = common.Reporter(pid, tier, seed)
    try:
        common.load_algopy()
        if replay:
            return do_replay(pid, mod, rep, replay, tier, seed)
        return mod.run(rep, tier, seed)
    except common.Machinery as e:
        if rep.violations:
            # violations of the property were already found on this tree; a later machinery step (typically a self-test
            # that exercises the real code) failing on the same broken tree must not turn the verdict into "exit 2"
            print("note: a machinery step failed after violations had been found: %s" % str(e)[:300])
            return rep.finish("run cut short by a machinery failure after violations had been found")
        print("MACHINERY FAILURE (%s): %s" % (pid, e))
        return 2
    except Exception:
        traceback.print_exc()
        if rep.violations:
            print("note: the harness raised after violations had been found")
            return rep.finish("run cut short by a harness exception after violations had been found")
        print("MACHINERY FAILURE (%s): unexpected exception in the harness" % pid)
        return 2


def do_replay(pid, mod, rep, path, tier, seed):
    """re-runs the single behaviour stored in a replay file (machine / tracer behaviours); for the other kinds of
    violation the check is re-run and the outcome for the stored signature is reported"""
    import json
    d = json.load(open(path))
    sig, det = d["signature"], d["detail"]
    print("replaying", sig)
    algopy = common.load_algopy()
    if isinstance(det, dict) and "initial_objects" in det and "behaviour" in det:
        import utpm_replay as U
        rp = U.Replayer(algopy, det["initial_objects"], variant=det.get("variant", 0))
        try:
            for rec in det["behaviour"]:
                rp.step(rec)
            if det.get("expected_state"):
                rp.compare(det["expected_state"])
            print("behaviour reproduces the specification's state: no violation"); return 0
        except U.Mismatch as m:
            print("VIOLATION property=%s replay=%s  # %s: %s" % (pid, path, m.clause, m.info)); return 1
        except Exception as e:
            print("VIOLATION property=%s replay=%s  # raises %r" % (pid, path, e)); return 1
    if isinstance(det, dict) and "behaviour" in det and det["behaviour"] and "c" in det["behaviour"][0]:
        import tracer_replay as T
        P = len(next((e["pt"]["x"] for e in det["behaviour"] if e["c"] == "fwd"), [0]))
        r = T.TracerReplayer(algopy, det["behaviour"], 2, max(P, 1), rec_kind=det.get("recording_kind", "U"),
                             prefix="buffered" if "buffered" in str(det.get("config", "")) else "plain").run(T.recpt_for(max(P, 1)))
        if r:
            print("VIOLATION property=%s replay=%s  # %s" % (pid, path, r[0])); return 1
        print("behaviour reproduces the specification's results: no violation"); return 0
    rc = mod.run(rep, tier, seed)
    again = any(s == sig for s, _ in rep.violations)
    print("signature %s after re-running the check" % ("REPRODUCED" if again else "not reproduced"))
    return 1 if again else 0


if __name__ == "__main__":
    sys.exit(main(sys.argv[1:]))
