"""C08 Matrix factorizations satisfy their defining equations modulo t^D.

Spec: Factor.tla - instances built FROM rational factor series (Cayley transform of a skew series applied to rational
orthogonal matrices gives an exactly orthogonal Q(t); R, L, U, Lambda, s integer series), so the unique Taylor factors of
A(t) are known exactly although A_0's factorization is irrational in general.  M: every generated instance satisfies
its defining identities exactly (orthogonality, triangularity, A Q = Q Lambda, symmetry ...).
R: each instance (square / tall / wide / full QR, Cholesky, LU with every 3x3 row permutation, symmetric
eigendecomposition with distinct eigenvalues and with repeated ones splitting at order 1, 2, never, in one or two
stages, SVD 3x2, general eig at D=2; alone and packed as two directions with different base matrices) is passed to
algopy.  Checked: (a) zeroth coefficients = NumPy/SciPy on A_0; (b) the uniquely determined factor coefficients = the
spec's series up to the constant sign convention; (c) the defining equations for ALL returned coefficients;
(d) triangular / diagonal / permutation structure.
"""
import numpy, scipy.linalg
from common import *
from c07 import arr_to_data

CFG = """CONSTANTS Dg = %d
 Q = %d
 Emit = TRUE
 ZeroOrd = %d
INIT Init
NEXT Next
INVARIANT GenOK
INVARIANT SkewOK
INVARIANT EmitState
CHECK_DEADLOCK FALSE
"""
TOL = 1e-8
CPLX_KINDS = ("eig2c", "eig2cc", "eig2ch", "eig2rot", "eig_mixed")


def tdot(a, b):
    """product of two matrix polynomials given as data arrays (D,P,n,k),(D,P,k,m), truncated"""
    D = a.shape[0]
    out = numpy.zeros(a.shape[:2] + (a.shape[2], b.shape[3]), dtype=numpy.result_type(a, b))
    for d in range(D):
        for c in range(d + 1):
            out[d] += numpy.einsum("pij,pjk->pik", a[c], b[d - c])
    return out


def tT(a):
    return numpy.swapaxes(a, 2, 3)


def eye_poly(D, P, n):
    e = numpy.zeros((D, P, n, n)); e[0] = numpy.eye(n); return e


def diag_poly(s, n, m):
    D, P, k = s.shape
    out = numpy.zeros((D, P, n, m), dtype=s.dtype)
    for i in range(k):
        out[:, :, i, i] = s[:, :, i]
    return out


def carr_to_data(a, D):
    """complex instance: [shape, v: list of series of Gaussian rationals] -> complex ndarray (D,) + shape"""
    vals = numpy.array([[complex(to_num(c)) for c in s_] for s_ in a["v"]])
    return vals.T.reshape((D,) + tuple(a["shape"]))


def resid(rep, sig, det, name, a, b, scale):
    err = abs(a - b).max()
    if not (err <= TOL * scale):
        i = numpy.unravel_index(numpy.argmax(abs(a - b)), a.shape)
        rep.violation("%s: %s" % (sig, name), dict(det, max_err=float(err), order=int(i[0]), direction=int(i[1])))
        return False
    return True


def run(rep, tier, seed):
    algopy = load_algopy()
    from algopy import UTPM
    q = tier == "quick"
    runs = [(3, 2, 0), (4, 1, 0), (3, 1, 1), (4, 1, 2)] if q else [(3, 4, 0), (4, 3, 0), (5, 1, 0), (3, 2, 1), (4, 2, 1), (4, 2, 2), (5, 1, 3)]
    recs = []
    for (D, Q, zo) in runs:
        res = tlc_ok(run_tlc("MC_Factor", CFG % (D, Q, zo), workers=16, timeout=2400), "MC_Factor D=%d" % D)
        rep.add_tlc(res, "MC_Factor_D%d_zero%d" % (D, zo))
        for r in res.records:
            r["D"] = D; r["zo"] = zo
        recs += [r for r in res.records if not (r["kind"] == "eig2" and D > 2)]
    # eig: only D <= 2 is supported (first-order formula)
    res = tlc_ok(run_tlc("MC_Factor", CFG % (2, 3 if q else 6, 0), workers=16, timeout=600), "MC_Factor D=2")
    rep.add_tlc(res, "MC_Factor_D2")
    for r in res.records:
        r["D"] = 2; r["zo"] = 0
    recs += [r for r in res.records if r["kind"] in ("eig2", "qr2", "chol2")]
    # complex eigenproblems (Gaussian-rational instance of the same modules): complex higher coefficients on a real base
    # matrix with a real spectrum, and complex already at order 0
    res = tlc_ok(run_tlc("MC_CFactor", CFG % (2, 3 if q else 6, 0), workers=4, timeout=600), "MC_CFactor D=2")
    rep.add_tlc(res, "MC_CFactor_D2")
    for r in res.records:
        r["D"] = 2; r["zo"] = 0
    if {r["kind"] for r in res.records} != {"eig2c", "eig2cc", "eig2ch", "eig2rot"}:
        raise Machinery("MC_CFactor: complex eigenproblems not generated")
    recs += res.records
    stale_out = {}
    groups = {}
    for r in recs:
        groups.setdefault((r["kind"], r["D"], r["zo"]), []).append(r)
    rot = [r for r in recs if r["kind"] == "eig2rot"]; cre = [r for r in recs if r["kind"] in ("eig2c", "eig2ch")]
    groups[("eig_mixed", 2, 0)] = []
    for (kind, D, zo), rs in sorted(groups.items()):
        rs = sorted(rs, key=lambda r: (r["q"], r["b"]))
        packs = [[r] for r in rs] + [[rs[i], rs[(i + 1) % len(rs)]] for i in range(len(rs)) if len(rs) > 1] \
            + [[rs[i], rs[(i + 1 + len(rs) // 2) % len(rs)]] for i in range(0, len(rs), 2) if len(rs) > 3]
        if kind == "eig_mixed":
            # directions of different nature in one polynomial: a real matrix with a conjugate-pair spectrum next to a real
            # spectrum (either order): whether the result is real or complex must not be decided from one direction
            packs = [[a_, b_] for a_, b_ in zip(rot, cre)] + [[b_, a_] for a_, b_ in zip(rot, cre[::-1])]
        for pack in packs:
            P = len(pack)
            a2d = carr_to_data if kind in CPLX_KINDS else arr_to_data
            get = lambda name: numpy.stack([a2d(r["inst"][name], D) for r in pack], axis=1)
            A = get("A")
            Au = UTPM(A.copy())
            sc = 1 + abs(A).max()
            sig = kind
            det = {"kind": kind, "D": D, "P": P, "b": [r["b"] for r in pack], "q": [r["q"] for r in pack], "zero_order": zo}
            rep.case((kind, D, zo, tuple((r["b"], r["q"]) for r in pack)), nontrivial=True)
            rep.replayed(1)
            try:
                if kind.startswith("qr"):
                    full = kind == "qr_full"
                    Qs, Rs = get("Q"), get("R")
                    Qr, Rr = (algopy.qr_full(Au) if full else algopy.qr(Au))
                    Qd, Rd = Qr.data, Rr.data
                    if Qd.shape != Qs.shape or Rd.shape != Rs.shape:
                        rep.violation(sig + ": shapes", dict(det, Q=list(Qd.shape), R=list(Rd.shape))); continue
                    for p in range(P):       # (a) same factorization as NumPy at order 0
                        q0, r0 = numpy.linalg.qr(A[0, p], mode="complete" if full else "reduced")
                        k0 = Rs.shape[3] if full else q0.shape[1]
                        resid(rep, sig, det, "Q_0 equals numpy.linalg.qr", Qd[0, p][:, :k0], q0[:, :k0], 1e-4 if False else 1.0)
                        resid(rep, sig, det, "R_0 equals numpy.linalg.qr", Rd[0, p], r0, sc)
                    resid(rep, sig, det, "Q R = A", tdot(Qd, Rd), A, sc)
                    resid(rep, sig, det, "Q^T Q = I", tdot(tT(Qd), Qd), eye_poly(D, P, Qd.shape[3]), 1.0)
                    if abs(numpy.tril(Rd, -1)).max() > TOL * sc:
                        rep.violation(sig + ": R upper triangular", det)
                    # (b) unique part up to the constant sign matrix
                    k = min(Rs.shape[2], Rs.shape[3])
                    for p in range(P):
                        sg = numpy.sign(numpy.diag(Rd[0, p])[:k]) * numpy.sign(numpy.diag(Rs[0, p])[:k])
                        resid(rep, sig, det, "Q(t) equals the constructed series (up to signs)", Qd[:, p][:, :, :k], Qs[:, p][:, :, :k] * sg, 1.0)
                        resid(rep, sig, det, "R(t) equals the constructed series (up to signs)", Rd[:, p][:, :k, :], Rs[:, p][:, :k, :] * sg[:, None], sc)
                    # result buffers of an earlier call handed back through out=: their old content must not matter
                    stale = stale_out.get((kind, D, P))
                    if stale is not None:
                        Qo, Ro = (UTPM.qr_full(Au, out=stale) if full else UTPM.qr(Au, out=stale))
                        resid(rep, sig, det, "out= buffers holding an earlier result: Q differs from a fresh call", Qo.data, Qd, 1.0)
                        resid(rep, sig, det, "out= buffers holding an earlier result: R differs from a fresh call", Ro.data, Rd, sc)
                    stale_out[(kind, D, P)] = (UTPM(Qd.copy() + 0.5), UTPM(Rd.copy() * 3.0 + 1.0))
                    # the same matrix scaled by 1e-9 is still of full column rank: Q is unchanged, R scales
                    if not full:
                        Q2, R2 = algopy.qr(UTPM(A * 1e-9))
                        for p in range(P):   # (LAPACK's sign convention may differ between A_0 and 1e-9 A_0: constant sign matrix)
                            sg2 = numpy.sign(numpy.diag(R2.data[0, p])[:k]) * numpy.sign(numpy.diag(Rd[0, p])[:k])
                            resid(rep, sig, det, "qr(1e-9 A): Q unchanged (up to signs)", Q2.data[:, p][:, :, :k], Qd[:, p][:, :, :k] * sg2, 1.0)
                            resid(rep, sig, det, "qr(1e-9 A): R scales (up to signs)", R2.data[:, p][:, :k, :] * 1e9, Rd[:, p][:, :k, :] * sg2[:, None], sc)
                elif kind.startswith("chol"):
                    Ls = get("L")
                    Ld = algopy.cholesky(Au).data
                    for p in range(P):
                        resid(rep, sig, det, "L_0 equals numpy.linalg.cholesky", Ld[0, p], numpy.linalg.cholesky(A[0, p]), sc)
                    resid(rep, sig, det, "L L^T = A", tdot(Ld, tT(Ld)), A, sc)
                    if abs(numpy.triu(Ld, 1)).max() > TOL * sc:
                        rep.violation(sig + ": L lower triangular", det)
                    resid(rep, sig, det, "L(t) equals the constructed series", Ld, Ls, sc)
                    stale = stale_out.get((kind, D, P))
                    if stale is not None:
                        resid(rep, sig, det, "out= buffer holding an earlier result: L differs from a fresh call", UTPM.cholesky(Au, out=stale).data, Ld, sc)
                    stale_out[(kind, D, P)] = UTPM(Ld.copy() * 2.0 + 1.0)
                elif kind == "lu3":
                    Ps, Ls, Us = get("P"), get("L"), get("U")
                    W, L, U = algopy.lu(Au)
                    Wd, Ld, Ud = W.data, L.data, U.data
                    for p in range(P):
                        p0, l0, u0 = scipy.linalg.lu(A[0, p])
                        resid(rep, sig, det, "P_0 equals scipy.linalg.lu", Wd[0, p], p0, 1.0)
                        resid(rep, sig, det, "L_0 equals scipy.linalg.lu", Ld[0, p], l0, sc)
                        resid(rep, sig, det, "U_0 equals scipy.linalg.lu", Ud[0, p], u0, sc)
                    resid(rep, sig, det, "P L U = A", tdot(Wd, tdot(Ld, Ud)), A, sc)
                    if abs(Wd[1:]).max() > 0:
                        rep.violation(sig + ": P constant", det)
                    if abs(numpy.triu(Ld, 1)).max() > TOL * sc or abs(numpy.tril(Ud, -1)).max() > TOL * sc or abs(numpy.einsum("dpii->dpi", Ld)[0] - 1).max() > TOL or abs(numpy.einsum("dpii->dpi", Ld)[1:]).max() > TOL * sc:
                        rep.violation(sig + ": unit lower L / upper U", det)
                    resid(rep, sig, det, "P equals the constructed permutation", Wd, Ps, 1.0)
                    resid(rep, sig, det, "L(t) equals the constructed series", Ld, Ls, sc)
                    resid(rep, sig, det, "U(t) equals the constructed series", Ud, Us, sc)
                elif kind == "eigh3":
                    lams = get("lam")
                    l, Qm = algopy.eigh(Au)
                    ld, Qd = l.data, Qm.data
                    for p in range(P):
                        w0 = numpy.linalg.eigvalsh(A[0, p])
                        resid(rep, sig, det, "lambda_0 equals numpy.linalg.eigh (ascending)", ld[0, p], w0, sc)
                        # eigenvalue series: the constructed ones in lexicographic order
                        cols = sorted([tuple(lams[:, p, i]) for i in range(lams.shape[2])])
                        resid(rep, sig, det, "lambda(t) equals the constructed series", ld[:, p], numpy.array(cols).T, sc)
                    resid(rep, sig, det, "A Q = Q diag(lambda)", tdot(A, Qd), tdot(Qd, diag_poly(ld, 3, 3)), sc)
                    resid(rep, sig, det, "Q^T Q = I", tdot(tT(Qd), Qd), eye_poly(D, P, 3), 1.0)
                    if all(r["b"] == 1 for r in pack):
                        # distinct eigenvalues, matrix scaled by 1e-9 and the threshold lowered accordingly: eigenvalues scale
                        l2, Q2 = algopy.eigh(UTPM(A * 1e-9), epsilon=1e-14)
                        resid(rep, sig, det, "eigh(1e-9 A, epsilon=1e-14): eigenvalues scale", l2.data * 1e9, ld, sc)
                        resid(rep, sig, det, "eigh(1e-9 A, epsilon=1e-14): A Q = Q diag(lambda)", tdot(A, Q2.data), tdot(Q2.data, diag_poly(l2.data * 1e9, 3, 3)), sc)
                elif kind == "svd32":
                    ss = get("s")
                    U, s, V = algopy.svd(Au)
                    Ud, sd, Vd = U.data, s.data, V.data
                    for p in range(P):
                        s0 = numpy.linalg.svd(A[0, p], compute_uv=False)
                        resid(rep, sig, det, "s_0 equals numpy.linalg.svd", sd[0, p], s0, sc)
                    resid(rep, sig, det, "s(t) equals the constructed series", sd, ss, sc)
                    resid(rep, sig, det, "U diag(s) V^T = A", tdot(Ud, tdot(diag_poly(sd, 3, 2), tT(Vd))), A, sc)
                    resid(rep, sig, det, "U^T U = I", tdot(tT(Ud), Ud), eye_poly(D, P, 3), 1.0)
                    resid(rep, sig, det, "V^T V = I", tdot(tT(Vd), Vd), eye_poly(D, P, 2), 1.0)
                elif kind in ("eig2",) + CPLX_KINDS:
                    lams = get("lam")
                    l, X = algopy.eig(Au)
                    ld, Xd = (l.data, X.data) if kind != "eig2" else (numpy.real_if_close(l.data), numpy.real_if_close(X.data))
                    for p in range(P):
                        order = numpy.argsort(ld[0, p])
                        so = numpy.argsort(lams[0, p])
                        resid(rep, sig, det, "lambda(t) equals the constructed series", ld[:, p][:, order], lams[:, p][:, so], sc)
                    resid(rep, sig, det, "A Q = Q diag(lambda)", tdot(A, Xd), tdot(Xd, diag_poly(ld, 2, 2)), sc)
                if not numpy.array_equal(Au.data, A):
                    rep.violation(sig + " modifies its argument", det)
                # the same matrix polynomial handed over as a transposed view (column-major coefficient slices): same factors, and
                # the argument is still what it was (LAPACK wrappers work in place on Fortran-ordered input when allowed to)
                fn = {"qr": algopy.qr, "qr_full": algopy.qr_full, "chol": algopy.cholesky, "lu3": algopy.lu, "eigh3": algopy.eigh, "svd32": algopy.svd}.get(
                    "qr_full" if kind == "qr_full" else "qr" if kind.startswith("qr") else "chol" if kind.startswith("chol") else kind)
                if fn is not None:
                    base = UTPM(numpy.ascontiguousarray(numpy.swapaxes(A, 2, 3)))
                    At = base.T
                    r_c = fn(UTPM(A.copy())); r_f = fn(At)
                    r_c = r_c if isinstance(r_c, tuple) else (r_c,); r_f = r_f if isinstance(r_f, tuple) else (r_f,)
                    for k_, (a_, b_) in enumerate(zip(r_c, r_f)):
                        if a_.data.shape != b_.data.shape or not numpy.allclose(a_.data, b_.data, rtol=1e-9, atol=1e-9 * sc):
                            rep.violation(sig + ": transposed-view argument gives other factors", dict(det, factor=k_)); break
                    if not numpy.array_equal(base.data, numpy.swapaxes(A, 2, 3)):
                        rep.violation(sig + " modifies its (transposed-view) argument", det)
            except Exception as ex:
                rep.violation(sig + " raises " + type(ex).__name__, dict(det, what=repr(ex)[-300:]))
    r0 = next(r for r in recs if r["kind"] == "qr2" and r["b"] == 3)
    rep.sample({"kind": "qr2", "b": 3, "q": r0["q"], "A": r0["inst"]["A"], "Q": r0["inst"]["Q"]})
    r1 = next(r for r in recs if r["kind"] == "eigh3" and r["b"] == 3)
    rep.sample({"kind": "eigh3 (pair splitting at order 2)", "lam": r1["inst"]["lam"]})
    # binding self-test: a corrupted constructed factor must be noticed
    D = r0["D"]
    A = arr_to_data(r0["inst"]["A"], D).reshape(D, 1, 2, 2)
    Rs = arr_to_data(r0["inst"]["R"], D).reshape(D, 1, 2, 2).copy(); Rs[D - 1, 0, 0, 1] += 0.5
    Qr, Rr = algopy.qr(UTPM(A.copy()))
    sg = numpy.sign(numpy.diag(Rr.data[0, 0])) * numpy.sign(numpy.diag(Rs[0, 0]))
    if abs(Rr.data[:, 0] - Rs[:, 0] * sg[:, None]).max() <= TOL * (1 + abs(A).max()):
        raise Machinery("self-test: corrupted R not detected")
    rep.assumptions += ["order-0 factors from NumPy/SciPy as the property states; sign conventions quantified existentially (constant sign matrix)",
                        "eigenvector columns inside a cluster of equal eigenvalue series are checked through the defining equations only"]
    return rep.finish("one case = (factorization, base orthogonal / permutation / eigenvalue pattern, coefficient pattern), alone and packed "
                      "pairwise as two directions with different base matrices; every instance is non-trivial (D >= 2)")
