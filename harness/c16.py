"""C16 Closed-form n-th derivatives are the true derivatives.

Spec: NthDeriv.tla - differentiation as a transition relation on closed differential rings (normal forms c*g, a*S+b*C,
c*u^p, P(x) w^(-m/2), P(x) e^(+-x^2), index shifts for polygamma / hyperu, zero for the piecewise constant ones).  Next
applies d/dx once by the sum/product/chain rule, so order n+1 IS the derivative of order n.  M: CrossCheck - for the
algebraic families nf_n(x0)/n! equals the Taylor coefficient of f(x0+t) obtained independently in the TPS algebra
(1/x, (1+-x^2)^-1, (1-x^2)^-1/2 at points with rational square roots, term-wise integration); Structure (periodicity
of sin/cos/sinh/cosh, degrees, exponents).  R: TLC prints the normal form of every (function, n, parameters); the harness
evaluates it with the generator values from NumPy/SciPy (n = 0 base case, as the property defines it) at a grid of
domain points and compares with algopy.nthderiv.<f>(x, n=k).
"""
import math
import numpy, scipy.special
from common import *

CFG = """CONSTANTS MaxN = %d
 MaxNCross = 5
 Emit = TRUE
INIT Init
NEXT Next
INVARIANT CrossCheck
INVARIANT Structure
INVARIANT EmitState
CHECK_DEADLOCK FALSE
"""

POINTS = {
    "all": [-2.5, -1.25, -0.3, 0.0, 0.4, 1.0, 2.75],
    "pos": [0.2, 0.5, 1.0, 3.25, 7.0],
    "gtm1": [-0.75, -0.2, 0.0, 1e-3, 0.6, 4.0],
    "abs1": [-0.9, -0.6, -0.1, 0.0, 0.3, 0.75],
    "gt1": [1.1, 1.5, 2.0, 5.0],
    "nz": [-2.5, -0.5, 0.25, 1.0, 3.0],
}
DOM = {"log": "pos", "log2": "pos", "log10": "pos", "log1p": "gtm1", "sqrt": "pos", "reciprocal": "nz",
       "arcsin": "abs1", "arccos": "abs1", "arctanh": "abs1", "arccosh": "gt1", "gammaln": "pos", "psi": "pos",
       "polygamma": "pos", "hyperu": "pos", "sign": "nz", "absolute": "nz", "clip": "all"}


def peval(P, x):
    """returns (value, magnitude)"""
    v = 0.0; m = 0.0
    for k, c in enumerate(P):
        t = float(to_frac(c)) * x ** k
        v += t; m += abs(t)
    return v, m


def evaluate(f, nf, par, x, n):
    """(value, magnitude scale) of the spec normal form at x"""
    F = lambda q: float(to_frac(q))
    if f in ("exp", "expm1"):
        v = F(nf["c"]) * math.exp(x); return v, abs(v)
    if f == "exp2":
        v = math.log(2) ** nf["k"] * 2.0 ** x; return v, abs(v)
    if f in ("sin", "cos"):
        a, b = F(nf["a"]), F(nf["b"]); return a * math.sin(x) + b * math.cos(x), abs(a * math.sin(x)) + abs(b * math.cos(x))
    if f in ("sinh", "cosh"):
        a, b = F(nf["a"]), F(nf["b"]); return a * math.sinh(x) + b * math.cosh(x), abs(a * math.sinh(x)) + abs(b * math.cosh(x))
    if f in ("log", "log2", "log10", "log1p", "sqrt", "reciprocal", "square", "negative"):
        u = x + 1.0 if f == "log1p" else x
        c, p = F(nf["c"]), F(nf["p"])
        v = c * (abs(u) ** p) * (1 if (u > 0 or to_frac(nf["p"]).denominator != 1 or int(p) % 2 == 0) else -1) if c != 0 else 0.0
        if f == "log2":
            v /= math.log(2)
        if f == "log10":
            v /= math.log(10)
        return v, abs(v)
    if f in ("arcsin", "arccos", "arcsinh", "arccosh", "arctan", "arctanh"):
        w = {"arcsin": 1 - x * x, "arccos": 1 - x * x, "arctanh": 1 - x * x, "arcsinh": 1 + x * x, "arctan": 1 + x * x, "arccosh": x * x - 1}[f]
        pv, pm = peval(nf["P"], x)
        s = w ** (-nf["m"] / 2.0)
        return pv * s, pm * abs(s)
    if f in ("erf", "erfi"):
        sg = -1.0 if f == "erf" else 1.0
        pv, pm = peval(nf["P"], x)
        s = 2 / math.sqrt(math.pi) * math.exp(sg * x * x)
        return pv * s, pm * abs(s)
    if f in ("gammaln", "psi", "polygamma"):
        v = F(nf["c"]) * float(scipy.special.polygamma(nf["k"], x)); return v, abs(v)
    if f == "hyperu":
        v = F(nf["c"]) * float(scipy.special.hyperu(F(nf["a"]), F(nf["b"]), x)); return v, abs(v)
    if f == "sign":
        return 0.0, 0.0
    if f == "absolute":
        return (float(numpy.sign(x)) if nf["z"] == 1 else 0.0), 1.0
    if f == "clip":
        return ((1.0 if -1.0 <= x <= 1.5 else 0.0) if nf["z"] == 1 else 0.0), 1.0
    raise Machinery("no evaluator for " + f)


def run(rep, tier, seed):
    algopy = load_algopy()
    nd = algopy.nthderiv
    maxn = 8 if tier == "quick" else 10
    res = tlc_ok(run_tlc("MC_NthDeriv", CFG % maxn, workers=8, timeout=900), "MC_NthDeriv")
    rep.add_tlc(res, "MC_NthDeriv")
    if not res.records:
        raise Machinery("no normal forms emitted")
    skipped = [0]
    for r in res.records:
        f, n, nf, par = r["f"], r["n"], r["nf"], r["par"]
        fn = getattr(nd, f)
        pts = POINTS[DOM.get(f, "all")]
        if f == "clip":
            pts = [p for p in pts if abs(p + 1.0) > 1e-9 and abs(p - 1.5) > 1e-9]
        xs = numpy.array(pts, dtype=float)
        F = lambda q: float(to_frac(q))
        pname = ""
        try:
            if f == "polygamma":
                got = fn(par["m"], xs, n=n); pname = "(m=%d)" % par["m"]
            elif f == "hyperu":
                got = fn(F(par["a"]), F(par["b"]), xs, n=n); pname = "(a=%s,b=%s)" % (to_frac(par["a"]), to_frac(par["b"]))
            elif f == "clip":
                got = fn(-1.0, 1.5, xs, n=n)
            else:
                got = fn(xs, n=n)
            got = numpy.asarray(got, dtype=float)
            # the NumPy-style out= argument: a separate buffer, and the argument itself (computed in place)
            pre = {"polygamma": lambda: (par["m"],), "hyperu": lambda: (F(par["a"]), F(par["b"])), "clip": lambda: (-1.0, 1.5)}.get(f, lambda: ())()
            buf = numpy.full_like(xs, 7.25)
            r1 = fn(*pre, xs.copy(), out=buf, n=n)
            xa = xs.copy()
            r2 = fn(*pre, xa, out=xa, n=n)
            for how, r_, tgt in (("a separate out= buffer", r1, buf), ("out= the argument itself", r2, xa)):
                if r_ is not tgt or not numpy.array_equal(numpy.asarray(r_, dtype=float), got, equal_nan=True):
                    rep.violation("%s%s with %s differs from the plain call" % (f, pname, how), {"n": n, "got": numpy.asarray(r_, dtype=float).tolist(), "plain": got.tolist()})
        except Exception as ex:
            rep.violation("%s%s raises %s" % (f, pname, type(ex).__name__), {"n": n, "what": repr(ex)[-300:]})
            continue
        bad = []
        for x, g in zip(pts, got):
            e, mag = evaluate(f, nf, par, x, n)
            if not (math.isfinite(e) and math.isfinite(mag)):
                skipped[0] += 1          # SciPy cannot evaluate the generator of the normal form here (hyperu with large a, b near 0): no reference
                continue
            rep.case((f, pname, n, x), nontrivial=n >= 2)
            if not (abs(g - e) <= 1e-9 * max(mag, abs(e)) + 1e-12):
                bad.append({"x": x, "got": float(g), "expected": e})
        nan0 = [b for b in bad if b["x"] == 0.0 and b["got"] != b["got"]]
        bad = [b for b in bad if b not in nan0]
        if nan0:
            rep.violation("%s%s returns nan at x=0" % (f, pname), {"n": n, "normal_form": nf, "mismatches": nan0})
        if bad:
            rep.violation("%s%s" % (f, pname), {"n": n, "normal_form": nf, "mismatches": bad[:4]})
        # n = 0 is the function itself
        if n == 1:
            base = {"polygamma": lambda: fn(par["m"], xs), "hyperu": lambda: fn(F(par["a"]), F(par["b"]), xs),
                    "clip": lambda: fn(-1.0, 1.5, xs)}.get(f, lambda: fn(xs))()
            ref = {"polygamma": lambda: scipy.special.polygamma(par["m"], xs),
                   "hyperu": lambda: scipy.special.hyperu(F(par["a"]), F(par["b"]), xs),
                   "clip": lambda: numpy.clip(xs, -1.0, 1.5), "gammaln": lambda: scipy.special.gammaln(xs),
                   "psi": lambda: scipy.special.psi(xs), "erf": lambda: scipy.special.erf(xs), "erfi": lambda: scipy.special.erfi(xs)
                   }.get(f, lambda: getattr(numpy, f)(xs))()
            if not numpy.allclose(base, ref, rtol=1e-13, atol=0):
                rep.violation("%s%s order 0" % (f, pname), {"got": numpy.asarray(base).tolist(), "expected": numpy.asarray(ref).tolist()})
        rep.replayed(1)
    big = [r for r in res.records if r["f"] == "arcsin" and r["n"] == 4]
    if big:
        rep.sample(big[0])
    rep.sample(next(r for r in res.records if r["f"] == "erf" and r["n"] == 3))
    # binding self-test: a corrupted normal form must be noticed
    r = next(r for r in res.records if r["f"] == "erf" and r["n"] == 3)
    nf2 = {"P": [[r["nf"]["P"][0][0] + r["nf"]["P"][0][1], r["nf"]["P"][0][1]]] + r["nf"]["P"][1:]}
    e, mag = evaluate("erf", nf2, r["par"], 0.4, 3)
    if abs(float(nd.erf(numpy.array([0.4]), n=3)[0]) - e) <= 1e-9 * mag + 1e-12:
        raise Machinery("self-test: corrupted normal form not detected")
    # hyperu with array-valued parameters (NumPy broadcasting of a, b against x): the stack of the scalar-parameter results
    xs = numpy.array([0.5, 1.0, 2.5, 3.0])
    for n in range(0, maxn + 1):
        for what, call, rows in (("a", lambda n=n: nd.hyperu(numpy.array([[0.5], [1.0], [-1.5]]), 1.25, xs, n=n), [(0.5, 1.25), (1.0, 1.25), (-1.5, 1.25)]),
                                 ("b", lambda n=n: nd.hyperu(0.5, numpy.array([[1.25], [2.0]]), xs, n=n), [(0.5, 1.25), (0.5, 2.0)])):
            rep.case(("hyperu array parameter", what, n), nontrivial=n >= 2)
            try:
                got = numpy.asarray(call(), dtype=float)
                want = numpy.array([nd.hyperu(a_, b_, xs, n=n) for a_, b_ in rows], dtype=float)
                if got.shape != want.shape or not numpy.allclose(got, want, rtol=1e-12, atol=0, equal_nan=True):
                    rep.violation("hyperu with an array-valued parameter %s differs from the scalar-parameter calls" % what, {"n": n})
            except Exception as ex:
                rep.violation("hyperu with an array-valued parameter raises " + type(ex).__name__, {"n": n, "what": repr(ex)[-200:]})
    if skipped[0] > 40:
        raise Machinery("too many points without a finite reference value (%d)" % skipped[0])
    rep.assumptions += ["%d (function, order, point) combinations skipped: SciPy returns no finite value for the generator of the normal form (hyperu with large parameters near 0)" % skipped[0],
                        "generator values (exp, sin, cos, sinh, cosh, polygamma, hyperu, powers, e^(+-x^2)) from NumPy/SciPy: order 0 is NumPy/SciPy by the property's definition",
                        "tan/tanh are not exported here (they need mpmath inside algopy, absent in /venv) and are not in the property's list"]
    return rep.finish("one case = (function, parameters, order n, point); normal forms for every n <= %d from TLC; non-trivial = n >= 2" % maxn,
                      {"exhaustive": False, "max_order": maxn})
