---------------------------- MODULE DriverSession ----------------------------
(* The forward-mode derivative drivers as a session: any number of seeded          *)
(* evaluations may be outstanding at a time, and they are extracted in any order.  *)
(*                                                                                  *)
(*   Seed(kind, prog, pt, v, d)   y = F(UTPM.init_<kind>(pt [, v | d]))  - one more  *)
(*                                outstanding result                                *)
(*   Extract(i)                   UTPM.extract_<kind>(y_i) - the exact derivative   *)
(*                                object of F at pt, whatever was seeded, evaluated *)
(*                                or extracted in between                           *)
(*                                                                                  *)
(* A program is a tuple of monomials (the components of a vector- or matrix-valued  *)
(* function, in C order) together with the shape of its value.  The seeds and the    *)
(* extraction formulas are those of FwdDrivers (direction sets, polarisation,        *)
(* exact interpolation); the expected results are the exact partial derivatives.    *)
EXTENDS FwdDrivers, Json, TLC

CONSTANTS Progs,        \* set of [mon |-> <<alpha_1, .., alpha_M>>, shape |-> <<..>>]
          Pts,          \* set of integer points (tuples; a point fits a program of the same length)
          Vs,           \* set of integer direction vectors
          Kinds,        \* subset of {"jacobian", "jac_vec", "hessian", "hess_vec", "tensor"}
          Ds,           \* tensor orders
          MaxPend, MaxSteps, Emit

VARIABLES pend,         \* outstanding seeded evaluations, oldest first
          hist          \* the behaviour so far with the expected result of every extraction

vars == <<pend, hist>>

NofProg(prog) == Len(prog.mon[1])
Fits(prog, pt, v) == Len(pt) = NofProg(prog) /\ Len(v) = NofProg(prog)
ScalarProg(prog) == prog.shape = <<>>

\* ---- what extraction returns, from the seeds by the formulas of FwdDrivers (one value per component, C order)
ByFormula(e) ==
  LET N == NofProg(e.prog)  M == Len(e.prog.mon) IN
  CASE e.kind = "jacobian" -> [m \in 1..M |-> [k \in 1..N |-> ExtractJacobian(e.prog.mon[m], e.pt, k)]]
    [] e.kind = "jac_vec"  -> [m \in 1..M |-> ExtractJacVec(e.prog.mon[m], e.pt, e.v)]
    [] e.kind = "hessian"  -> [i \in 1..N |-> [j \in 1..N |-> ExtractHessian(e.prog.mon[1], e.pt, i, j)]]
    [] e.kind = "hess_vec" -> [n \in 1..N |-> ExtractHessVec(e.prog.mon[1], e.pt, e.v, n)]
    [] e.kind = "tensor"   -> [m \in 1..M |-> [i \in MultiIdx(N, e.d) |-> ExtractTensor(e.prog.mon[m], e.pt, e.d, i)]]
\* ---- the exact derivative objects
Exact(e) ==
  LET N == NofProg(e.prog)  M == Len(e.prog.mon) IN
  CASE e.kind = "jacobian" -> [m \in 1..M |-> [k \in 1..N |-> Grad(e.prog.mon[m], e.pt, k)]]
    [] e.kind = "jac_vec"  -> [m \in 1..M |-> SumSeqInt([k \in 1..N |-> Grad(e.prog.mon[m], e.pt, k) * e.v[k]])]
    [] e.kind = "hessian"  -> [i \in 1..N |-> [j \in 1..N |-> Hess(e.prog.mon[1], e.pt, i, j)]]
    [] e.kind = "hess_vec" -> [n \in 1..N |-> SumSeqInt([k \in 1..N |-> Hess(e.prog.mon[1], e.pt, n, k) * e.v[k]])]
    [] e.kind = "tensor"   -> [m \in 1..M |-> [i \in MultiIdx(N, e.d) |-> PartialOverFact(e.prog.mon[m], i, e.pt)]]
AsRat(e) ==
  LET N == NofProg(e.prog)  M == Len(e.prog.mon)  x == Exact(e) IN
  CASE e.kind = "jacobian" -> [m \in 1..M |-> [k \in 1..N |-> RInt(x[m][k])]]
    [] e.kind = "jac_vec"  -> [m \in 1..M |-> RInt(x[m])]
    [] e.kind = "hessian"  -> [i \in 1..N |-> [j \in 1..N |-> RInt(x[i][j])]]
    [] e.kind = "hess_vec" -> [n \in 1..N |-> RInt(x[n])]
    [] e.kind = "tensor"   -> [m \in 1..M |-> [i \in MultiIdx(N, e.d) |-> RInt(x[m][i])]]

Init == pend = <<>> /\ hist = <<>>

Seed(kind, prog, pt, v, d) ==
  /\ Len(pend) < MaxPend
  /\ Len(hist) + Len(pend) + 2 <= MaxSteps                      \* (bounded model: everything seeded can still be extracted)
  /\ Fits(prog, pt, v)
  /\ kind \in {"hessian", "hess_vec"} => ScalarProg(prog)
  /\ kind # "tensor" => d = 1                                   \* (d is only meaningful for tensors)
  /\ kind \notin {"jac_vec", "hess_vec"} => v = [k \in 1..Len(pt) |-> 1]   \* (v only for the two products)
  /\ LET e == [kind |-> kind, prog |-> prog, pt |-> pt, v |-> v, d |-> d] IN
     /\ pend' = Append(pend, e)
     /\ hist' = Append(hist, [a |-> "seed", e |-> e, i |-> 0, exp |-> <<>>])

Extract(i) ==
  /\ i \in 1..Len(pend) /\ Len(hist) < MaxSteps
  /\ pend' = [k \in 1..(Len(pend) - 1) |-> IF k < i THEN pend[k] ELSE pend[k + 1]]
  /\ hist' = Append(hist, [a |-> "extract", e |-> pend[i], i |-> i, exp |-> TLCEval(Exact(pend[i]))])

Next ==
  \/ \E kind \in Kinds : \E prog \in Progs : \E pt \in Pts : \E v \in Vs : \E d \in Ds : Seed(kind, prog, pt, v, d)
  \/ \E i \in 1..MaxPend : Extract(i)
Spec == Init /\ [][Next]_vars

\* ---- M: the drivers are exact for every outstanding evaluation (the extraction formula applied to the propagated seeds
\*         is the exact derivative object), so an extraction never depends on the rest of the session
\*         (checked when an evaluation is seeded; entries never change afterwards - PendStable)
DriversExact == (hist # <<>> /\ hist[Len(hist)].a = "seed") => ByFormula(pend[Len(pend)]) = AsRat(pend[Len(pend)])
PendStable == [][/\ hist'[Len(hist')].a = "seed" => SubSeq(pend', 1, Len(pend)) = pend
                 /\ hist'[Len(hist')].a = "extract" => \A k \in 1..Len(pend') : \E m \in 1..Len(pend) : pend'[k] = pend[m]]_vars
TypeOK == Len(pend) <= MaxPend /\ Len(hist) <= MaxSteps
\* an extraction reports exactly what the same evaluation would report in a session of its own
ExtractIndependent ==
  \A k \in 1..Len(hist) : hist[k].a = "extract" => hist[k].exp = Exact(hist[k].e)
EmitState == (Emit /\ hist # <<>> /\ (Len(hist) = MaxSteps \/ pend = <<>>) /\ hist[Len(hist)].a = "extract") => PrintT(ToJson(hist))
=============================================================================
