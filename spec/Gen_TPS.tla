------------------------------ MODULE Gen_TPS ------------------------------
(* R generator: for every coefficient pattern of x(t) the spec's C-matrix       *)
(* C[d][k] = [t^d](x - x_0)^k (integers), and exact x(t)^y(t) at x_0 = 1.        *)
EXTENDS TPS, TLC, Json, FiniteSets
CONSTANTS D, Vals, Mode, MaxNonZero

V5 == -2..2
V3 == -1..1
V7 == -3..3
VARIABLES x, y
vars == <<x, y>>
RV == {RInt(v) : v \in Vals}
NonZero(s) == Cardinality({d \in 2..D : s[d] # RZero})

\* exp at 0: 1/k!
RECURSIVE FactN(_)
FactN(n) == IF n <= 0 THEN 1 ELSE n * FactN(n - 1)
FExp0 == [k \in 1..D |-> RFrac(1, FactN(k - 1))]
FLog1 == [k \in 1..D |-> IF k = 1 THEN RZero ELSE RFrac(IF k % 2 = 0 THEN 1 ELSE -1, k - 1)]
PowXY(xx, yy) == SCompose(FExp0, SMul(yy, SCompose(FLog1, xx)))

InitC == /\ x \in {s \in [1..D -> RV] : s[1] = RZero /\ NonZero(s) <= MaxNonZero} /\ y = <<>>
InitP == /\ x \in {s \in [1..D -> RV] : s[1] = ROne /\ NonZero(s) <= MaxNonZero}
         /\ y \in {s \in [1..D -> RV] : NonZero(s) <= 1}
Init == IF Mode = "cmat" THEN InitC ELSE InitP
Next == UNCHANGED vars
Emit == IF Mode = "cmat"
        THEN PrintT(ToJson([x |-> [d \in 1..D |-> x[d][1]],
                            C |-> [d \in 1..D |-> [k \in 1..D |-> CMatrix(x)[d][k][1]]]]))
        ELSE PrintT(ToJson([x |-> x, y |-> y, z |-> PowXY(x, y)]))
=============================================================================
