------------------------------ MODULE MC_LinAlg ------------------------------
EXTENDS LinAlg, TLC, Json
CONSTANTS Dg, Q, Emit, FirstBase,
          ZeroOrd      \* >= 1: every coefficient of that order is zero (sparse polynomials A_0 + A_2 t^2 ...); 0: none
VARIABLES kind, b, q
vars == <<kind, b, q>>

\* ---- catalogue of integer base matrices (row lists); well conditioned; several need row pivoting
Bases == << << <<2, 1>>, <<1, 3>> >>,
            << <<0, 2>>, <<3, 1>> >>,
            << <<1, 2>>, <<3, 4>> >>,
            << <<4, -1>>, <<2, 1>> >>,
            << <<2, 1, 0>>, <<1, 3, 1>>, <<0, 1, 4>> >>,
            << <<0, 1, 2>>, <<1, 0, 3>>, <<4, -3, 8>> >>,
            << <<1, 2, 3>>, <<2, 5, 3>>, <<1, 0, 8>> >>,
            << <<1, 4, 2>>, <<3, 1, 1>>, <<2, 2, 5>> >>,
            << <<0, 2, 1>>, <<1, 0, 2>>, <<2, 1, 0>> >>,
            \* unimodular ones (determinant +-1: inverses stay integral, usable at high degree)
            << <<2, 1>>, <<1, 1>> >>,
            << <<0, 1>>, <<1, 2>> >>,
            << <<1, 1, 0>>, <<1, 2, 1>>, <<0, 1, 2>> >>,
            << <<0, 1, 1>>, <<0, 0, 1>>, <<1, 0, 0>> >> >>      \* partial pivoting permutes the rows cyclically
\* deterministic integer "noise" for higher coefficients and right-hand sides
Noise(qq, i, j, d) == IF ZeroOrd >= 1 /\ d = ZeroOrd + 1 THEN 0 ELSE ((qq * (i + 2 * j + 3 * d + 1) + i * j + d) % 5) - 2
SeriesOf(base, qq, i, j, salt) == [d \in 1..Dg |-> IF d = 1 THEN RInt(base) ELSE RInt(Noise(qq + salt, i, j, d))]
MatOf(bi, qq) == LET M == Bases[bi]  n == Len(M) IN
  Mat(n, n, LAMBDA i, j : IF kind = "solve_AU" THEN SConst(RInt(M[i + 1][j + 1]), Dg) ELSE SeriesOf(M[i + 1][j + 1], qq, i, j, 0))
ArrOf(shape, qq, salt, const) ==
  [shape |-> shape, v |-> [k \in 1..Size(shape) |-> [d \in 1..Dg |-> IF d = 1 THEN RInt(Noise(qq + salt, k, salt, 0) + (IF k % 2 = 0 THEN 3 ELSE 0))
                                                                      ELSE IF const THEN RZero ELSE RInt(Noise(qq + salt, k, 2, d))]]]
DotShapes == << << <<3>>, <<3>> >>, << <<2, 3>>, <<3>> >>, << <<3>>, <<3, 2>> >>, << <<2, 3>>, <<3, 2>> >>,
               << <<2, 2, 3>>, <<3, 2>> >>, << <<2, 3>>, <<2, 3, 2>> >>, << <<2, 2, 3>>, <<3>> >>, << <<3>>, <<2, 3, 2>> >>,
               << <<1, 3>>, <<3, 1>> >>, << <<2, 2, 3>>, <<2, 3, 2>> >> >>
Kinds == {"inv", "solve", "solve_AU", "solve_UA", "solve_vec", "det", "logdet", "trace", "dot_UU", "dot_UA", "dot_AU", "outer", "outer_UA", "outer_AU", "expm_nil"}
NB(k) == IF k \in {"dot_UU", "dot_UA", "dot_AU"} THEN Len(DotShapes) ELSE IF k \in {"outer", "outer_UA", "outer_AU", "expm_nil"} THEN 1 ELSE Len(Bases)
Init == kind = "none" /\ b = 0 /\ q = 0
UsesBase(k) == k \in {"inv", "solve", "solve_AU", "solve_UA", "solve_vec", "det", "logdet", "trace"}
Next == \/ /\ kind = "none" /\ kind' \in Kinds /\ b' \in (IF UsesBase(kind') THEN FirstBase ELSE 1)..NB(kind') /\ q' = 0
        \/ /\ kind # "none" /\ q = 0 /\ q' \in 1..Q /\ UNCHANGED <<kind, b>>
Ready == kind # "none" /\ q > 0

A == MatOf(b, q)
NA == Len(Bases[b])
RHS == ArrOf(<<NA, 2>>, q, 7, kind = "solve_UA")
RHSv == ArrOf(<<NA>>, q, 5, FALSE)
DA == ArrOf(DotShapes[b][1], q, 1, kind = "dot_AU")
DB == ArrOf(DotShapes[b][2], q, 4, kind = "dot_UA")
OX == ArrOf(<<3>>, q, 2, kind = "outer_AU")
OY == ArrOf(<<2>>, q, 6, kind = "outer_UA")
Nil == Mat(3, 3, LAMBDA i, j : IF i < j THEN [d \in 1..Dg |-> RInt(Noise(q, i, j, d))] ELSE SZero(Dg))
Inputs == CASE kind \in {"inv", "det", "logdet", "trace"} -> <<A>>
            [] kind \in {"solve", "solve_AU", "solve_UA"} -> <<A, RHS>> [] kind = "solve_vec" -> <<A, RHSv>>
            [] kind \in {"dot_UU", "dot_UA", "dot_AU"} -> <<DA, DB>>
            [] kind \in {"outer", "outer_UA", "outer_AU"} -> <<OX, OY>>
            [] kind = "expm_nil" -> <<Nil>>
Scalar(s) == [shape |-> <<>>, v |-> <<s>>]
Output == CASE kind = "inv" -> Inv(A) [] kind \in {"solve", "solve_AU", "solve_UA"} -> Solve(A, RHS) [] kind = "solve_vec" -> Solve(A, RHSv)
            [] kind = "det" -> Scalar(Det(A)) [] kind = "logdet" -> Scalar(LogDetHigher(A)) [] kind = "trace" -> Scalar(Trace(A))
            [] kind \in {"dot_UU", "dot_UA", "dot_AU"} -> Dot(DA, DB)
            [] kind \in {"outer", "outer_UA", "outer_AU"} -> Outer(OX, OY)
            [] kind = "expm_nil" -> ExpmNilpotent(Nil)

\* ---- M: the defining identities in the series ring
InvOK == (Ready /\ kind = "inv") => /\ Regular(A)
                                     /\ Dot(A, Inv(A)) = Ident(NA, Dg) /\ Dot(Inv(A), A) = Ident(NA, Dg)
                                     /\ MScale(Det(A), Inv(A)) = Adj(A)
SolveOK == (Ready /\ kind \in {"solve", "solve_AU", "solve_UA"}) => Dot(A, Solve(A, RHS)) = RHS
SolveVecOK == (Ready /\ kind = "solve_vec") => Dot(A, Solve(A, RHSv)) = RHSv
DetOK == (Ready /\ kind = "det") =>
   /\ Det(Dot(A, Transp(A))) = SMul(Det(A), Det(A))                         \* multiplicative, det(A^T) = det(A)
   /\ Det(Dot(A, A)) = SMul(Det(A), Det(A))
   /\ LET T == Mat(NA, NA, LAMBDA i, j : IF i <= j THEN Elt(A, <<i, j>>) ELSE SZero(Dg))      \* triangular: product of the diagonal
          pd[i \in 0..NA] == IF i = 0 THEN SOne(Dg) ELSE SMul(pd[i - 1], Elt(A, <<i - 1, i - 1>>))
      IN Det(T) = pd[NA]
LogDetOK == (Ready /\ kind = "logdet" /\ Dg >= 2) =>
   \* d/dt log det A = det'/det
   SDeriv(LogDetHigher(A)) = STrunc(SDiv([d \in 1..Dg |-> IF d < Dg THEN SDeriv(Det(A))[d] ELSE RZero], Det(A)), Dg - 1)
TraceOK == (Ready /\ kind = "trace") => Trace(Dot(A, Transp(A))) = Trace(Dot(Transp(A), A))
DotOK2 == (Ready /\ kind \in {"dot_UU", "dot_UA", "dot_AU"}) =>
   /\ DotOK(DA.shape, DB.shape) /\ Dot(DA, DB).shape = DotShape(DA.shape, DB.shape)
   /\ (Len(DA.shape) = 2 /\ Len(DB.shape) = 2) => Transp(Dot(DA, DB)) = Dot(Transp(DB), Transp(DA))
OuterOK == (Ready /\ kind \in {"outer", "outer_UA", "outer_AU"}) =>
   Outer(OX, OY) = Dot([shape |-> <<3, 1>>, v |-> OX.v], [shape |-> <<1, 2>>, v |-> OY.v])
ExpmOK == (Ready /\ kind = "expm_nil") =>
   \* exp(A) exp(-A) = I
   Dot(ExpmNilpotent(Nil), ExpmNilpotent(MScale(SConst(RInt(-1), Dg), Nil))) = Ident(3, Dg)
EmitState == (Emit /\ Ready) => PrintT(ToJson([kind |-> kind, b |-> b, q |-> q, inp |-> Inputs, out |-> Output]))
=============================================================================
