\* GENERATED from LinAlg.tla by tools/gen_complex.py - do not edit
------------------------------- MODULE CLinAlg -------------------------------
(* Linear algebra over the ring Q[t]/(t^D): arrays whose entries are truncated     *)
(* power series.  An array is [shape |-> <<..>>, v |-> Seq of series in C order].    *)
(* Every function is defined by its defining identity in the series ring (Leibniz    *)
(* determinant, adjugate / determinant inverse, ...), not by a recurrence over the   *)
(* Taylor order.                                                                      *)
EXTENDS NDA, CTPS, FiniteSetsExt

Dof(A) == Len(A.v[1])
Elt(A, idx) == A.v[Ravel(idx, A.shape) + 1]                 \* idx 0-based
Mat(n, m, f(_, _)) == [shape |-> <<n, m>>, v |-> TLCEval([k \in 1..(n * m) |-> f((k - 1) \div m, (k - 1) % m)])]
Vec(n, f(_)) == [shape |-> <<n>>, v |-> [k \in 1..n |-> f(k - 1)]]
SSum(seqOfSeries, D) == LET acc[k \in 0..Len(seqOfSeries)] == IF k = 0 THEN SZero(D) ELSE SAdd(acc[k - 1], seqOfSeries[k])
                        IN acc[Len(seqOfSeries)]

\* ---- numpy.dot for every rank combination:  sum over the last axis of A and the second-to-last of B (the only axis of a 1-D B)
DotShape(sa, sb) ==
  IF Len(sb) = 1 THEN SubSeq(sa, 1, Len(sa) - 1)
  ELSE SubSeq(sa, 1, Len(sa) - 1) \o SubSeq(sb, 1, Len(sb) - 2) \o <<sb[Len(sb)]>>
DotOK(sa, sb) == Len(sa) >= 1 /\ Len(sb) >= 1 /\ sa[Len(sa)] = (IF Len(sb) = 1 THEN sb[1] ELSE sb[Len(sb) - 1])
Dot(A, B) ==
  LET sa == A.shape  sb == B.shape  D == Dof(A)
      K == sa[Len(sa)]
      rs == DotShape(sa, sb)
      na == Len(sa) - 1                          \* leading axes of A in the result
      nb == IF Len(sb) = 1 THEN 0 ELSE Len(sb) - 2
  IN [shape |-> rs,
      v |-> TLCEval([k \in 1..Size(rs) |->
               LET r == TLCEval(Unravel(k - 1, rs))
                   ia(c) == [a \in 1..Len(sa) |-> IF a <= na THEN r[a] ELSE c]
                   ib(c) == IF Len(sb) = 1 THEN <<c>>
                            ELSE [a \in 1..Len(sb) |-> IF a <= nb THEN r[na + a] ELSE IF a = Len(sb) - 1 THEN c ELSE r[Len(rs)]]
               IN SSum([c \in 1..K |-> SMul(Elt(A, ia(c - 1)), Elt(B, ib(c - 1)))], D)])]
Outer(x, y) == [shape |-> <<x.shape[1], y.shape[1]>>,
                v |-> [k \in 1..(x.shape[1] * y.shape[1]) |-> SMul(x.v[((k - 1) \div y.shape[1]) + 1], y.v[((k - 1) % y.shape[1]) + 1])]]
MAdd(A, B) == [shape |-> A.shape, v |-> TLCEval([k \in 1..Len(A.v) |-> SAdd(A.v[k], B.v[k])])]
MScale(s, A) == [shape |-> A.shape, v |-> TLCEval([k \in 1..Len(A.v) |-> SMul(s, A.v[k])])]
Ident(n, D) == Mat(n, n, LAMBDA i, j : IF i = j THEN SOne(D) ELSE SZero(D))
Transp(A) == Mat(A.shape[2], A.shape[1], LAMBDA i, j : Elt(A, <<j, i>>))
Trace(A) == SSum([i \in 1..A.shape[1] |-> Elt(A, <<i - 1, i - 1>>)], Dof(A))

\* ---- determinant: Leibniz expansion in the series ring
Perms(n) == {p \in [1..n -> 1..n] : \A i \in 1..n : \A j \in 1..n : i # j => p[i] # p[j]}
PermSign(p) == IF Cardinality({pr \in (1..Len(p)) \X (1..Len(p)) : pr[1] < pr[2] /\ p[pr[1]] > p[pr[2]]}) % 2 = 0 THEN 1 ELSE -1
Det(A) ==
  LET n == A.shape[1]  D == Dof(A)
      term(p) == LET pr[i \in 0..n] == IF i = 0 THEN SConst(RInt(PermSign(p)), D) ELSE SMul(pr[i - 1], Elt(A, <<i - 1, p[i] - 1>>)) IN pr[n]
  IN FoldSet(LAMBDA p, acc : SAdd(term(p), acc), SZero(D), Perms(n))
\* minor: delete row i, column j (0-based)
Minor(A, i, j) == LET n == A.shape[1] IN
  Mat(n - 1, n - 1, LAMBDA r, c : Elt(A, <<IF r < i THEN r ELSE r + 1, IF c < j THEN c ELSE c + 1>>))
Det1(A) == IF A.shape[1] = 0 THEN SOne(Dof(A)) ELSE Det(A)
\* adjugate and inverse:  A^{-1} = adj(A) / det(A)  (det(A) is a unit of the ring iff det(A_0) # 0)
Adj(A) == LET n == A.shape[1]  D == Dof(A) IN
  Mat(n, n, LAMBDA i, j : SScale(RInt(IF (i + j) % 2 = 0 THEN 1 ELSE -1),
                                 IF n = 1 THEN SOne(D) ELSE Det(Minor(A, j, i))))
Inv(A) == LET d == TLCEval(Det(A))  ad == TLCEval(Adj(A)) IN [shape |-> A.shape, v |-> [k \in 1..Len(A.v) |-> SDiv(ad.v[k], d)]]
Solve(A, B) == Dot(Inv(A), B)
Regular(A) == Det(A)[1] # RZero
\* log|det|: higher coefficients are rational ( log(det)' = det'/det ), the zeroth one is log|det_0|
LogDetHigher(A) == LET d == TLCEval(Det(A)) IN SCompose(FLogHigher(d[1], Dof(A)), d)
\* matrix exponential of a nilpotent (strictly upper triangular) series matrix: the finite sum
ExpmNilpotent(A) ==
  LET n == A.shape[1]  D == Dof(A)
      RECURSIVE FactL(_)
      FactL(k) == IF k <= 0 THEN 1 ELSE k * FactL(k - 1)
      pw[k \in 0..(n - 1)] == IF k = 0 THEN Ident(n, D) ELSE Dot(pw[k - 1], A)
      acc[k \in 0..(n - 1)] == IF k = 0 THEN pw[0] ELSE MAdd(acc[k - 1], MScale(SConst(RFrac(1, FactL(k)), D), pw[k]))
  IN acc[n - 1]
=============================================================================
