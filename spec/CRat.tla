------------------------------- MODULE CRat -------------------------------
(* Gaussian rationals <<re, im>> (re, im exact rationals of module Rat) under the   *)
(* SAME operator names as Rat, so that TPS / UTPMachine instantiate over complex     *)
(* scalars by replacing "EXTENDS Rat" with "EXTENDS CRat" (see tools/gen_complex.py). *)
EXTENDS Integers, Sequences
R == INSTANCE Rat

Abs(x) == IF x < 0 THEN -x ELSE x
RZero == <<R!RZero, R!RZero>>
ROne  == <<R!ROne, R!RZero>>
RInt(i) == <<R!RInt(i), R!RZero>>
RFrac(n, d) == <<R!RFrac(n, d), R!RZero>>
RCx(re, im) == <<re[1], im[1]>>                 \* re, im: "real" values of this module
RNeg(a) == <<R!RNeg(a[1]), R!RNeg(a[2])>>
RAdd(a, b) == <<R!RAdd(a[1], b[1]), R!RAdd(a[2], b[2])>>
RSub(a, b) == <<R!RSub(a[1], b[1]), R!RSub(a[2], b[2])>>
RMul(a, b) == <<R!RSub(R!RMul(a[1], b[1]), R!RMul(a[2], b[2])), R!RAdd(R!RMul(a[1], b[2]), R!RMul(a[2], b[1]))>>
RInv(a) == LET n == R!RAdd(R!RMul(a[1], a[1]), R!RMul(a[2], a[2])) IN <<R!RDiv(a[1], n), R!RNeg(R!RDiv(a[2], n))>>
RDiv(a, b) == RMul(a, RInv(b))
RLt(a, b) == FALSE
RLe(a, b) == FALSE
RIsZero(a) == a = RZero
RIsInt(a) == a[1][2] = 1 /\ a[2][2] = 1
RIsReal(a) == a[2] = R!RZero
RConjS(a) == <<a[1], R!RNeg(a[2])>>
RRe(a) == <<a[1], R!RZero>>
RIm(a) == <<a[2], R!RZero>>
RSmall(a, M) == /\ Abs(a[1][1]) <= M /\ a[1][2] <= M /\ Abs(a[2][1]) <= M /\ a[2][2] <= M
RECURSIVE RPowNat(_, _)
RPowNat(a, n) == IF n = 0 THEN ROne ELSE RMul(a, RPowNat(a, n - 1))
RECURSIVE RSumSeq(_)
RSumSeq(s) == IF s = <<>> THEN RZero ELSE RAdd(Head(s), RSumSeq(Tail(s)))
RECURSIVE RProdSeq(_)
RProdSeq(s) == IF s = <<>> THEN ROne ELSE RMul(Head(s), RProdSeq(Tail(s)))
=============================================================================
