------------------------------ MODULE Dispatch ------------------------------
(* Name-based dispatch of the algopy-level functions (globalfuncs, linalg): a call   *)
(* is routed to the class method of the FIRST argument whose class provides a         *)
(* method of that name, and to the numpy / numpy.linalg / scipy.linalg function       *)
(* otherwise.  Argument kinds: "F" Function node, "U" UTPM, "A" ndarray, "S" scalar.  *)
EXTENDS Integers, Sequences, FiniteSets, TLC, Json

CONSTANT Emit
VARIABLES name, kinds
vars == <<name, kinds>>

Unary == {"exp", "expm1", "log", "log1p", "sqrt", "sin", "cos", "tan", "arcsin", "arccos", "arctan", "sinh", "cosh", "tanh",
          "sign", "absolute", "square", "negative", "reciprocal", "trace", "diag", "triu", "tril", "conjugate", "transpose",
          "inv", "det", "qr", "cholesky", "eigh", "eig", "svd", "lu", "sum", "prod", "real", "imag", "logdet"}
\* ("pow" is generated too, but neither class has a method of that name: x ** r is the overloaded form, see C01/C02)
Binary == {"minimum", "maximum", "dot", "outer", "solve"}
Namespace(n) == IF n \in {"inv", "solve", "eigh", "eig", "svd", "qr", "cholesky", "det"} THEN "numpy.linalg"
                ELSE IF n = "lu" THEN "scipy.linalg" ELSE IF n = "transpose" THEN "numpy" ELSE "numpy"
\* which classes provide a method of this name (tanh, arcsin, ... are not methods of Function: such calls cannot be traced)
FunctionLacks == {"arcsin", "arccos", "arctan", "sinh", "cosh", "tanh", "expm1_", "minimum", "maximum", "pow"}
Provides(k, n) == (k = "U") \/ (k = "F" /\ n \notin FunctionLacks)
Route(n, ks) ==
  IF \E i \in 1..Len(ks) : Provides(ks[i], n)
  THEN LET i == CHOOSE ii \in 1..Len(ks) : Provides(ks[ii], n) /\ \A jj \in 1..(ii - 1) : ~Provides(ks[jj], n) IN ks[i]
  ELSE Namespace(n)
Init == name = "" /\ kinds = <<>>
Next == /\ name = ""
        /\ \/ /\ name' \in Unary /\ kinds' \in [1..1 -> {"U", "A", "S"}]
           \/ /\ name' \in Binary /\ kinds' \in [1..2 -> {"U", "A"}]
\* called with plain arrays / scalars only, the NumPy / SciPy function of the same name answers
PlainIsNumpy == (name # "" /\ \A i \in 1..Len(kinds) : kinds[i] \in {"A", "S"}) => Route(name, kinds) = Namespace(name)
\* a polynomial argument always wins over plain ones, whatever its position
PolyWins == (name # "" /\ \E i \in 1..Len(kinds) : kinds[i] = "U") => Route(name, kinds) = "U"
EmitState == (Emit /\ name # "") => PrintT(ToJson([name |-> name, kinds |-> kinds, route |-> Route(name, kinds)]))
=============================================================================
