----------------------------- MODULE MC_Tracer -----------------------------
EXTENDS Tracer, Json
CONSTANT Emit

\* series helpers
S1(a) == <<RInt(a)>>
S2(a, b) == <<RInt(a), RInt(b)>>
\* P = 1 points: x[p][j]
PtsP1 == { [D |-> 1, x |-> << <<S1(1), S1(2)>> >>],
           [D |-> 1, x |-> << <<S1(3), S1(5)>> >>],
           [D |-> 2, x |-> << <<S2(3, 1), S2(5, -1)>> >>],
           [D |-> 2, x |-> << <<S2(2, 1), S2(-1, 2)>> >>] }
PtsP1small == { [D |-> 1, x |-> << <<S1(1), S1(2)>> >>],
                [D |-> 2, x |-> << <<S2(3, 1), S2(5, -1)>> >>] }
PtsD2 == { [D |-> 2, x |-> << <<S2(3, 1), S2(5, -1)>> >>] }
PtsTwo == { [D |-> 1, x |-> << <<S1(3), S1(5), S1(2), S1(-1)>> >>],
            [D |-> 2, x |-> << <<S2(3, 1), S2(5, -1), S2(2, 2), S2(-1, 1)>> >>] }
OpsTwo == {"get", "set", "mul", "add", "dot"}
PtsP2D2 == { [D |-> 2, x |-> << <<S2(3, 1), S2(5, -1)>>, <<S2(2, -1), S2(-1, 2)>> >>] }
PtsP2 == { [D |-> 1, x |-> << <<S1(1), S1(2)>>, <<S1(1), S1(2)>> >>],
           [D |-> 2, x |-> << <<S2(3, 1), S2(5, -1)>>, <<S2(2, -1), S2(-1, 2)>> >>] }
\* complex points and seeds (meaningful in the Gaussian-rational instance MC_CTracer; in this instance RCx(re, im) = re)
C1(a, b) == <<RCx(RInt(a), RInt(b))>>
C2(a, b, c, d) == <<RCx(RInt(a), RInt(b)), RCx(RInt(c), RInt(d))>>
PtsCx == { [D |-> 1, x |-> << <<C1(1, 1), C1(2, -1)>> >>],
           [D |-> 2, x |-> << <<C2(3, 1, 1, 2), C2(1, -2, -1, 1)>> >>] }
PtsCxP2 == { [D |-> 2, x |-> << <<C2(3, 1, 1, 2), C2(1, -2, -1, 1)>>, <<C2(2, -1, 0, 1), C2(-1, 2, 2, 0)>> >>] }
SeedsCx == { <<C2(2, 1, -1, 1), C2(-1, 2, 3, -1)>> }
PtsCx1 == { [D |-> 1, x |-> << <<C1(1, 1), C1(2, -1)>> >>] }      \* complex data of the degree of the (real-valued) recording run
\* real and complex data of the same degree alternating on one graph
PtsMix == { [D |-> 2, x |-> << <<S2(3, 1), S2(5, -1)>> >>], [D |-> 2, x |-> << <<C2(3, 1, 1, 2), C2(1, -2, -1, 1)>> >>],
            [D |-> 1, x |-> << <<C1(1, 1), C1(2, -1)>> >>] }       \* (D = 1: the degree of the recording run)
\* seed tables (series of length 2, truncated to the current D)
SeedsA == { <<S2(1, 0)>>, <<S2(2, -1), S2(-1, 3)>> }
SeedsB == { <<S2(2, -1), S2(-1, 3)>> }

V2(a, b) == <<RInt(a), RInt(b)>>
XCat == { V2(1, 2), V2(3, 5) }
VCat == { V2(1, -1), V2(2, 1) }
WCat1 == { <<RInt(1)>>, <<RInt(2)>> }
WCat2 == { V2(1, 0), V2(2, -1) }
WCat == WCat1 \cup WCat2
NoVec == {}
XOne == { V2(3, 5) }
VOne == { V2(2, -1) }
WOne == { <<RInt(2)>>, V2(2, -1) }
PtsOne == { [D |-> 1, x |-> << <<S1(1), S1(2)>> >>] }
OpsDrv == {"get", "set", "mul", "add", "drv"}
OpsDrvArith == {"get", "set", "mul", "add", "sub", "div", "pow", "sum", "rev", "drv"}
OpsCore == {"get", "set", "mul", "add"}
OpsOtherRec == {"get", "set", "mul", "otherrec", "other"}
OpsA5 == {"get", "seta", "dot", "mul", "rev"}
OpsDrvC == {"get", "seta", "dot", "mul", "drv"}
OpsH3 == {"seta", "dot", "mul", "rev", "other"}
OpsDrvP == {"set", "mul", "get", "drv"}
OpsRevP == {"set", "mul", "get", "add"}
OpsRec == {"get", "set", "mul", "add", "const"}
OpsDrvO == {"get", "set", "mul", "drv", "other"}
OpsDrvZ == {"rev", "sub", "mul", "drv"}          \* with XZero: intermediates that vanish at the evaluation point (first-order adjoint exactly 0)
XZero == { V2(2, 2) }
OpsDrvX == {"get", "mul", "drv"}                 \* driver histories over several evaluation points (DrvX <- XCat)
OpsH2 == {"get", "set", "div", "pow"}
OpsDrvA == {"get", "set", "mul", "div", "sum", "drv"}
OpsDrvB == {"get", "rev", "pow", "sub", "sum", "drv"}
NoSeeds == {}
NoPts == {}
PtsD2b == { [D |-> 2, x |-> << <<S2(3, 1), S2(5, -1)>> >>], [D |-> 1, x |-> << <<S1(2), S1(-1)>> >>] }
OpsA1 == {"get", "set", "mul", "div", "pow"}
OpsA2 == {"get", "rev", "sum", "sub", "neg", "mul"}
OpsA3 == {"get", "const", "mul", "add", "div"}
OpsA4 == {"get", "set", "rev", "mul", "sum"}
OpsArith == {"get", "set", "mul", "add", "sub", "div", "neg", "pow", "sum", "const", "rev"}
OpsView == {"get", "set", "rev", "mul", "sum"}
OpsHist == {"get", "set", "mul", "add", "other"}
\* product reduction, square / reciprocal (entry points with pullbacks of their own), a scalar broadcast into a whole buffer
OpsB1 == {"get", "prod", "sq", "recip", "mul"}
OpsB2 == {"get", "setsc", "seta", "mul", "prod", "rev"}
OpsB3 == {"get", "setsc", "sq", "sum", "sub"}
OpsDrvD == {"get", "setsc", "prod", "recip", "drv"}
\* a bare reverse sweep directly after a single-direction driver (no pushforward in between)
OpsDrvPb == {"set", "mul", "get", "drv", "pbdrv"}
OpsDrvPb2 == {"get", "mul", "sum", "rev", "drv", "pbdrv"}
OpsToggle == {"get", "mul", "add", "toggle", "const"}

Spec == Init /\ [][Next]_vars
Proj == [prog |-> prog, recd |-> recd, phase |-> phase, ret |-> ret,
         vals |-> [k \in 1..Len(prog) |-> IF val[k] = NoneV THEN <<>> ELSE ValOf(Read(heap, val[k]))]]
EmitState == (Emit /\ phase = "idle" /\ ~CanCall) => PrintT(ToJson(hist))
=============================================================================
