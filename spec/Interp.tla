------------------------------ MODULE Interp ------------------------------
(* Exact interpolation of mixed partial derivatives from univariate Taylor        *)
(* coefficients (Griewank, Utke, Walther; "Evaluating Derivatives" (13.13)).      *)
(* The specification is the *identity* the interpolation has to satisfy; the      *)
(* closed formula is the design under test.                                        *)
EXTENDS Rat, FiniteSets, FiniteSetsExt, TLC

RECURSIVE SumSeqInt(_)
SumSeqInt(s) == IF s = <<>> THEN 0 ELSE Head(s) + SumSeqInt(Tail(s))

\* all multi-indices of N variables with total degree d -- set definition
MultiIdx(N, d) == {i \in [1..N -> 0..d] : SumSeqInt(i) = d}

RECURSIVE Fact(_)
Fact(n) == IF n <= 0 THEN 1 ELSE n * Fact(n - 1)
RECURSIVE Binom(_, _)
Binom(n, k) == IF k = 0 THEN 1 ELSE IF k > n THEN 0 ELSE (Binom(n - 1, k - 1) * n) \div k
MIFact(i) == LET f[n \in 0..Len(i)] == IF n = 0 THEN 1 ELSE f[n - 1] * Fact(i[n]) IN f[Len(i)]

\* generalised binomial coefficient C(z, m) for rational z, natural m
RECURSIVE GBinom(_, _)
GBinom(z, m) == IF m = 0 THEN ROne
                ELSE RMul(GBinom(z, m - 1), RDiv(RSub(z, RInt(m - 1)), RInt(m)))

\* lexicographic descending order = the order algopy documents for its index list
\* (the order itself is not part of the property; the set is)
LexGreater(i, j) == \E n \in 1..Len(i) : (\A m \in 1..(n - 1) : i[m] = j[m]) /\ i[n] > j[n]

\* ray_j ^ alpha  with ray_j = the multi-index j itself (seed matrix = identity)
MIPow(j, a) == LET f[n \in 0..Len(j)] == IF n = 0 THEN 1
                                         ELSE f[n - 1] * (IF a[n] = 0 THEN 1 ELSE
                                              LET p[e \in 0..a[n]] == IF e = 0 THEN 1 ELSE p[e - 1] * j[n] IN p[a[n]])
               IN f[Len(j)]

\* gamma(i, j) of (13.13) divided by i! :
\*   sum over 0 < k <= i of (-1)^|i-k| C(i,k) C(d k/|k|, j) (|k|/d)^|i|
Gamma(i, j, N, d) ==
  LET Ks == {k \in [1..N -> 0..d] : (\A n \in 1..N : k[n] <= i[n]) /\ SumSeqInt(k) > 0}
      Term(k) ==
        LET ak == SumSeqInt(k)
            sgn == IF (SumSeqInt(i) - ak) % 2 = 0 THEN 1 ELSE -1
            b1 == LET f[n \in 0..N] == IF n = 0 THEN 1 ELSE f[n - 1] * Binom(i[n], k[n]) IN f[N]
            b2 == LET f[n \in 0..N] == IF n = 0 THEN ROne
                                       ELSE RMul(f[n - 1], GBinom(RFrac(d * k[n], ak), j[n])) IN f[N]
            t4 == RPowNat(RFrac(ak, d), SumSeqInt(i))
        IN RMul(RInt(sgn * b1), RMul(b2, t4))
  IN RDiv(FoldSet(LAMBDA k, acc : RAdd(Term(k), acc), RZero, Ks), RInt(MIFact(i)))

\* The interpolation identity: sum_j Gamma(i,j) * ray_j^alpha = [i = alpha]
Identity(i, a, N, d) ==
  FoldSet(LAMBDA j, acc : RAdd(RMul(Gamma(i, j, N, d), RInt(MIPow(j, a))), acc), RZero, MultiIdx(N, d))
       = (IF i = a THEN ROne ELSE RZero)
=============================================================================
