------------------------------- MODULE Conv -------------------------------
(* Conversions between representations as index maps (pure data movement), and  *)
(* LAPACK pivot vectors.  A conversion is specified by, for every element of the  *)
(* result in C order, the flat C-order position of the source element it holds.   *)
EXTENDS NDA

\* ---- UTPM data (D,P)+es  ->  direction array es+(P,D)            (utils.utpm2dirs)
Utpm2Dirs(D, P, es) ==
  LET ss == <<D, P>> \o es
      rs == es \o <<P, D>>
      ne == Len(es)
  IN [shape |-> rs,
      src |-> [k \in 1..Size(rs) |-> LET r == TLCEval(Unravel(k - 1, rs)) IN
                 Ravel(<<r[ne + 2], r[ne + 1]>> \o [a \in 1..ne |-> r[a]], ss)]]
\* ---- base point + directions  (utpm2base_and_dirs / base_and_dirs2utpm): x = coefficient 0 of direction 0,
\*      V = coefficients 1..D-1 in layout es+(P,D-1); the inverse replicates x into every direction
Dirs2UtpmSrc(D, P, es) ==        \* D = number of coefficients of the polynomial; per result element: <<"x", k>> or <<"V", k>>
  LET rs == <<D, P>> \o es
      vs == es \o <<P, D - 1>>
      ne == Len(es)
  IN [k \in 1..Size(rs) |-> LET r == TLCEval(Unravel(k - 1, rs)) IN
        IF r[1] = 0 THEN <<"x", Ravel([a \in 1..ne |-> r[a + 2]], es)>>
        ELSE <<"V", Ravel([a \in 1..ne |-> r[a + 2]] \o <<r[2], r[1] - 1>>, vs)>>]
\* ---- nested container (shape cs) of polynomials with element shape es  <->  one polynomial of shape cs \o es:
\*      element k (C order) of the result is element (k mod ne) of container entry (k div ne)
AsUtpmSrc(cs, es) == [k \in 1..(Size(cs) * Size(es)) |-> <<(k - 1) \div Size(es), (k - 1) % Size(es)>>]
\* ---- symmetric matrix <-> vector of distinct entries, filled row-wise over the upper triangle
SymPairs(N) == LET RECURSIVE row(_, _)
                   row(r, c) == IF r >= N THEN <<>> ELSE IF c >= N THEN row(r + 1, r + 1) ELSE <<<<r, c>>>> \o row(r, c + 1)
               IN row(0, 0)
VecSymIdx(N) == [k \in 1..(N * N) |-> LET r == (k - 1) \div N  c == (k - 1) % N
                                          lo == IF r < c THEN r ELSE c   hi == IF r < c THEN c ELSE r
                                      IN CHOOSE m \in 1..Len(SymPairs(N)) : SymPairs(N)[m] = <<lo, hi>>]
\* which matrix entries define vector entry m under each storage convention
SymVecSrc(N, uplo) == [m \in 1..Len(SymPairs(N)) |->
   LET pr == SymPairs(N)[m] IN
   CASE uplo = "U" -> <<pr[1] * N + pr[2]>>
     [] uplo = "L" -> <<pr[2] * N + pr[1]>>
     [] uplo = "F" -> <<pr[1] * N + pr[2], pr[2] * N + pr[1]>>]       \* mean of the two
\* ---- shift of coefficients by s (positive: towards higher order), zero fill
ShiftSrc(D, s) == [d \in 0..(D - 1) |-> IF d - s >= 0 /\ d - s < D THEN d - s ELSE -1]

\* ---- pivot vectors (0-based, as returned by scipy.linalg.lu_factor): row i was interchanged with row piv[i]
IsPiv(piv) == \A i \in 1..Len(piv) : piv[i] >= i - 1 /\ piv[i] < Len(piv)
RECURSIVE ApplySwaps(_, _, _)
ApplySwaps(perm, piv, i) ==
  IF i > Len(piv) THEN perm
  ELSE LET j == piv[i] + 1
           sw == [k \in 1..Len(perm) |-> IF k = i THEN perm[j] ELSE IF k = j THEN perm[i] ELSE perm[k]]
       IN ApplySwaps(sw, piv, i + 1)
\* rows of A after all interchanges: row k of (P^T A) is row Perm[k] of A (0-based values)
PermOf(piv) == ApplySwaps([k \in 1..Len(piv) |-> k - 1], piv, 1)
IsPermutation(perm) == {perm[k] : k \in 1..Len(perm)} = 0..(Len(perm) - 1)
NumSwaps(piv) == Cardinality({i \in 1..Len(piv) : piv[i] # i - 1})
SignOf(piv) == IF NumSwaps(piv) % 2 = 0 THEN 1 ELSE -1
\* independent definition of the sign: parity of the number of inversions
Inversions(perm) == Cardinality({pr \in (1..Len(perm)) \X (1..Len(perm)) : pr[1] < pr[2] /\ perm[pr[1]] > perm[pr[2]]})
SignByInversions(perm) == IF Inversions(perm) % 2 = 0 THEN 1 ELSE -1
\* the permutation matrix with A = Pm L U when (P^T A) = L U:  Pm[r][k] = 1 iff r = Perm[k]
PermMatrix(piv) == LET pm == PermOf(piv) IN [r \in 1..Len(piv) |-> [k \in 1..Len(piv) |-> IF pm[k] = r - 1 THEN 1 ELSE 0]]
=============================================================================
