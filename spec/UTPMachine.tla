---------------------------- MODULE UTPMachine ----------------------------
(* Forward-mode UTPM objects as a transition system over an explicit heap.         *)
(* A UTPM object is an array view whose first two axes are (D, P); all public       *)
(* operations are actions with an explicit read set, write set and result.          *)
(* Values are exact rationals; arithmetic is that of TPS (defining identities).     *)
EXTENDS NDA, TPS, TLC

CONSTANTS Dg, Pg,          \* degree (number of coefficients) and number of directions of every UTPM in the pool
          Pool,            \* initial objects: sequence of [k |-> "U"|"A", es |-> element shape]
          Acts,            \* enabled action names
          IdxCat,          \* catalogue of index expressions
          Scalars,         \* catalogue of rational scalars <<n,d>> used as constants
          CmpScalars,      \* scalars used on the right of comparisons
          ReshapeCat,      \* catalogue of target element shapes for reshape
          TileCat,         \* catalogue of repetition tuples for tile
          MaxLen,          \* length bound of a behaviour
          MaxObjs,         \* bound on the number of objects
          MaxAbs           \* magnitude bound on |num|, den of every heap cell (keeps TLC's 32-bit ints safe)

VARIABLES heap,    \* Seq of buffers, each a Seq of rationals
          objs,    \* Seq of objects [k, buf, shape, cells]; for "U" shape = <<D,P>> \o element shape
          hist     \* Seq of action records: the behaviour so far
vars == <<heap, objs, hist>>

\* ------------------------------------------------------------------ helpers
ES(o) == IF o.k = "U" THEN SubSeq(o.shape, 3, Len(o.shape)) ELSE o.shape
NE(o) == Size(ES(o))
Arr(o) == [buf |-> o.buf, shape |-> o.shape, cells |-> o.cells]
Val(h, o, k) == h[o.buf][o.cells[k]]                        \* k-th element (1-based, C order)
\* cell position (1-based in o.cells) of coefficient d (1..D), direction p (0..P-1), element e (0..n-1)
Pos(o, d, p, e) == ((d - 1) * Pg + p) * NE(o) + e + 1
Ser(h, o, p, e) == [d \in 1..Dg |-> Val(h, o, Pos(o, d, p, e))]
\* a constant array / scalar seen as a degree-0 polynomial
CSer(c) == SConst(c, Dg)
DistinctCells(o) == Cardinality({o.cells[k] : k \in 1..Len(o.cells)}) = Len(o.cells)

\* fresh UTPM object from per-(p,e) series Z[p][e] (0-based function domains) with element shape es
FreshU(h, es, Z) ==
  LET n == TLCEval(Size(es))
      tot == TLCEval(Dg * Pg * n)
      buf == [k \in 1..tot |-> LET d == ((k - 1) \div (Pg * n)) + 1
                                   p == TLCEval(((k - 1) \div n) % Pg)
                                   e == TLCEval((k - 1) % n)
                               IN Z[p][e][d]]
  IN [heap |-> Append(h, buf),
      obj  |-> [k |-> "U", buf |-> Len(h) + 1, shape |-> <<Dg, Pg>> \o es, cells |-> Iota(tot)]]
\* (the data type of an object - real or complex - is not a field of the object: it is the type of the cells it can reach;
\*  RealObj below is the abstraction the replay compares with numpy's dtype kind)
RealObj(h, o) == \A k \in 1..Len(o.cells) : RIsReal(h[o.buf][o.cells[k]])
\* write per-(p,e) series Z through the cells of UTPM object o (cells must be distinct)
WriteU(h, o, Z) ==
  LET n == TLCEval(NE(o))
      upd == TLCEval([c \in {o.cells[k] : k \in 1..Len(o.cells)} |->
                LET k == TLCEval(CHOOSE kk \in 1..Len(o.cells) : o.cells[kk] = c)
                    d == TLCEval(((k - 1) \div (Pg * n)) + 1)
                    p == TLCEval(((k - 1) \div n) % Pg)
                    e == TLCEval((k - 1) % n)
                IN Z[p][e][d]])
  IN [h EXCEPT ![o.buf] = [c \in 1..Len(h[o.buf]) |-> IF c \in DOMAIN upd THEN upd[c] ELSE h[o.buf][c]]]

SOp(op, x, y) == CASE op = "add" -> SAdd(x, y) [] op = "sub" -> SSub(x, y)
                   [] op = "mul" -> SMul(x, y) [] op = "div" -> SDiv(x, y)
DivOK(h, o) == \A p \in 0..(Pg - 1) : \A e \in 0..(NE(o) - 1) : Val(h, o, Pos(o, 1, p, e)) # RZero
ADivOK(h, o) == \A k \in 1..Len(o.cells) : Val(h, o, k) # RZero

\* ------------------------------------------------------------------ initial state
\* generic small values: order-0 coefficients non-zero, everything distinct enough to expose mix-ups
InitRe(b, j, zeroth) ==
  IF zeroth THEN RFrac(((7 * b + 3 * j) % 5) + 1, IF (b + j) % 3 = 0 THEN 2 ELSE 1)
  ELSE RFrac(((5 * b + 3 * j) % 5) - 2, IF (b + 2 * j) % 4 = 0 THEN 2 ELSE 1)
\* complex pool objects (dt = "c") get a non-zero imaginary part
InitVal(b, j, zeroth, cplx) == IF cplx THEN RCx(InitRe(b, j, zeroth), RFrac(((3 * b + 2 * j) % 5) - 2, IF j % 2 = 0 THEN 2 ELSE 1))
                               ELSE InitRe(b, j, zeroth)
IsCplx(o) == "dt" \in DOMAIN o /\ o.dt = "c"
InitBuf(b, o) ==
  IF o.k = "U" THEN LET n == Size(o.es) IN [j \in 1..(Dg * Pg * n) |-> InitVal(b, j, j <= Pg * n, IsCplx(o))]
  ELSE [j \in 1..Size(o.es) |-> InitVal(b, j, TRUE, IsCplx(o))]
Init ==
  /\ heap = [b \in 1..Len(Pool) |-> InitBuf(b, Pool[b])]
  /\ objs = [b \in 1..Len(Pool) |->
               [k |-> Pool[b].k, buf |-> b,
                shape |-> IF Pool[b].k = "U" THEN <<Dg, Pg>> \o Pool[b].es ELSE Pool[b].es,
                cells |-> Iota(Len(InitBuf(b, Pool[b]))),
                ct |-> IsCplx(Pool[b])]]               \* complex-TYPED storage (NumPy dtype kind), independent of the values
  /\ hist = <<>>

Us == {i \in 1..Len(objs) : objs[i].k = "U"}
As == {i \in 1..Len(objs) : objs[i].k = "A"}
CanGrow == Len(hist) < MaxLen /\ Len(objs) < MaxObjs
CanStep == Len(hist) < MaxLen
\* element type of a result: NumPy promotion over the operands (value independent); real / imag give real-typed results,
\* fft / ifft complex-typed ones; views share the type of their parent (they are covered by the same rule: operand i)
CtOf(rec) ==
  CASE rec.a \in {"real", "imag"} -> FALSE
    [] rec.a \in {"fft", "ifft"} -> TRUE
    [] OTHER -> \/ ("i" \in DOMAIN rec /\ objs[rec.i].ct)
                \/ ("j" \in DOMAIN rec /\ rec.j \in 1..Len(objs) /\ rec.a \in {"bin", "bina"} /\ objs[rec.j].ct)
                \/ ("c" \in DOMAIN rec /\ rec.a = "bins" /\ ~RIsReal(rec.c))
NewObj(r, rec) == /\ heap' = r.heap
                  /\ objs' = Append(objs, [k |-> r.obj.k, buf |-> r.obj.buf, shape |-> r.obj.shape, cells |-> r.obj.cells, ct |-> CtOf(rec)])
                  /\ hist' = Append(hist, rec)

\* ------------------------------------------------------------------ arithmetic actions
\* z = x op y, both UTPM
Bin(op, i, j) ==
  /\ "bin" \in Acts /\ CanGrow /\ i \in Us /\ j \in Us
  /\ Broadcastable(ES(objs[i]), ES(objs[j]))
  /\ op = "div" => DivOK(heap, objs[j])
  /\ LET x == objs[i]  y == objs[j]
         es == TLCEval(BroadcastShape(ES(x), ES(y)))
         Z == TLCEval([p \in 0..(Pg - 1) |-> [e \in 0..(Size(es) - 1) |->
                 LET r == TLCEval(Unravel(e, es))
                 IN SOp(op, Ser(heap, x, p, BcastSrc(r, ES(x), es)), Ser(heap, y, p, BcastSrc(r, ES(y), es)))]])
     IN NewObj(FreshU(heap, es, Z), [a |-> "bin", op |-> op, i |-> i, j |-> j])
\* z = x op c  (side "r")  or  z = c op x  (side "l"), c a plain array of the pool
BinA(op, i, j, side) ==
  /\ "bina" \in Acts /\ CanGrow /\ i \in Us /\ j \in As
  /\ Broadcastable(ES(objs[i]), ES(objs[j]))
  /\ (op = "div" /\ side = "r") => ADivOK(heap, objs[j])
  /\ (op = "div" /\ side = "l") => DivOK(heap, objs[i])
  /\ LET x == objs[i]  c == objs[j]
         es == TLCEval(BroadcastShape(ES(x), ES(c)))
         Z == TLCEval([p \in 0..(Pg - 1) |-> [e \in 0..(Size(es) - 1) |->
                 LET r == TLCEval(Unravel(e, es))
                     xs == TLCEval(Ser(heap, x, p, BcastSrc(r, ES(x), es)))
                     cs == TLCEval(CSer(Val(heap, c, BcastSrc(r, ES(c), es) + 1)))
                 IN IF side = "r" THEN SOp(op, xs, cs) ELSE SOp(op, cs, xs)]])
     IN NewObj(FreshU(heap, es, Z), [a |-> "bina", op |-> op, i |-> i, j |-> j, side |-> side])
\* scalar constant
BinS(op, i, c, side) ==
  /\ "bins" \in Acts /\ CanGrow /\ i \in Us
  /\ (op = "div" /\ side = "r") => c # RZero
  /\ (op = "div" /\ side = "l") => DivOK(heap, objs[i])
  /\ LET x == objs[i]
         Z == TLCEval([p \in 0..(Pg - 1) |-> [e \in 0..(NE(x) - 1) |->
                 IF side = "r" THEN SOp(op, Ser(heap, x, p, e), CSer(c)) ELSE SOp(op, CSer(c), Ser(heap, x, p, e))]])
     IN NewObj(FreshU(heap, ES(x), Z), [a |-> "bins", op |-> op, i |-> i, c |-> c, side |-> side])
\* x op= y : same coefficients as x op y, evaluated from the pre-state, written through x's cells
IBin(op, i, j) ==
  /\ "ibin" \in Acts /\ CanStep /\ i \in Us /\ j \in Us
  /\ Broadcastable(ES(objs[i]), ES(objs[j]))
  /\ BroadcastShape(ES(objs[i]), ES(objs[j])) = ES(objs[i])
  /\ DistinctCells(objs[i])
  /\ op = "div" => DivOK(heap, objs[j])
  /\ ~objs[i].ct => ~objs[j].ct        \* (NumPy cannot store into a real-typed array from a complex-typed one in place, whatever the values)
  /\ LET x == objs[i]  y == objs[j]  es == ES(x)
         Z == TLCEval([p \in 0..(Pg - 1) |-> [e \in 0..(Size(es) - 1) |->
                 SOp(op, Ser(heap, x, p, e), Ser(heap, y, p, BcastSrc(TLCEval(Unravel(e, es)), ES(y), es)))]])
     IN /\ heap' = WriteU(heap, x, Z) /\ objs' = objs
        /\ hist' = Append(hist, [a |-> "ibin", op |-> op, i |-> i, j |-> j])
IBinA(op, i, j) ==
  /\ "ibina" \in Acts /\ CanStep /\ i \in Us /\ j \in As
  /\ Broadcastable(ES(objs[i]), ES(objs[j]))
  /\ BroadcastShape(ES(objs[i]), ES(objs[j])) = ES(objs[i])
  /\ DistinctCells(objs[i])
  /\ op = "div" => ADivOK(heap, objs[j])
  /\ ~objs[i].ct => ~objs[j].ct
  /\ LET x == objs[i]  c == objs[j]  es == ES(x)
         Z == TLCEval([p \in 0..(Pg - 1) |-> [e \in 0..(Size(es) - 1) |->
                 SOp(op, Ser(heap, x, p, e), CSer(Val(heap, c, BcastSrc(TLCEval(Unravel(e, es)), ES(c), es) + 1)))]])
     IN /\ heap' = WriteU(heap, x, Z) /\ objs' = objs
        /\ hist' = Append(hist, [a |-> "ibina", op |-> op, i |-> i, j |-> j])
IBinS(op, i, c) ==
  /\ "ibins" \in Acts /\ CanStep /\ i \in Us /\ DistinctCells(objs[i])
  /\ op = "div" => c # RZero
  /\ ~objs[i].ct => RIsReal(c)
  /\ LET x == objs[i]
         Z == TLCEval([p \in 0..(Pg - 1) |-> [e \in 0..(NE(x) - 1) |-> SOp(op, Ser(heap, x, p, e), CSer(c))]])
     IN /\ heap' = WriteU(heap, x, Z) /\ objs' = objs
        /\ hist' = Append(hist, [a |-> "ibins", op |-> op, i |-> i, c |-> c])
\* x ** n, python int exponent (negative allowed)
\* (TLC integers are 32 bit: the fourth power is taken of small values only, and nothing is raised to a power again after it)
SmallObj(h, o, M) == \A k \in 1..Len(o.cells) : RSmall(h[o.buf][o.cells[k]], M)
PowI(i, n) ==
  /\ "powi" \in Acts /\ CanGrow /\ i \in Us /\ (n < 0 => DivOK(heap, objs[i]))
  /\ (n = 4 => (SmallObj(heap, objs[i], 6) /\ Len(hist) = MaxLen - 1))      \* (x**4 only as the last step of a behaviour)
  /\ (n \in {2, 3, -2} => SmallObj(heap, objs[i], 130))
  /\ LET x == objs[i]
         Z == TLCEval([p \in 0..(Pg - 1) |-> [e \in 0..(NE(x) - 1) |-> SPowInt(Ser(heap, x, p, e), n)]])
     IN NewObj(FreshU(heap, ES(x), Z), [a |-> "powi", i |-> i, n |-> n])
Unary(f, i) ==
  /\ "unary" \in Acts /\ CanGrow /\ i \in Us /\ (f = "reciprocal" => DivOK(heap, objs[i]))
  /\ (f = "square" => SmallObj(heap, objs[i], 130))
  /\ LET x == objs[i]
         Z == TLCEval([p \in 0..(Pg - 1) |-> [e \in 0..(NE(x) - 1) |->
                 LET s == Ser(heap, x, p, e) IN
                 CASE f = "neg" -> SNeg(s) [] f = "square" -> SMul(s, s)
                   [] f = "reciprocal" -> SInv(s) [] f = "clone" -> s [] f = "zeros_like" -> SZero(Dg)]])
     IN NewObj(FreshU(heap, ES(x), Z), [a |-> "unary", f |-> f, i |-> i])

\* ------------------------------------------------------------------ shape actions
UIdx(ix) == <<FullSlice, FullSlice>> \o ix
GetItem(i, ix) ==
  /\ "getitem" \in Acts /\ CanGrow /\ i \in Us /\ ValidIndex(ix, ES(objs[i]))
  /\ LET v == TLCEval(Index(Arr(objs[i]), UIdx(ix)))
     IN /\ Size(v.shape) > 0
        /\ objs' = Append(objs, [k |-> "U", buf |-> v.buf, shape |-> v.shape, cells |-> v.cells, ct |-> objs[i].ct])
        /\ heap' = heap /\ hist' = Append(hist, [a |-> "getitem", i |-> i, ix |-> ix])
\* x[ix] = y  (y UTPM): every coefficient copied, broadcast, read from the pre-state
SetItem(i, ix, j) ==
  /\ "setitem" \in Acts /\ CanStep /\ i \in Us /\ j \in Us /\ ValidIndex(ix, ES(objs[i]))
  /\ LET ts == IndexShape(ix, ES(objs[i])) IN
       Size(ts) > 0 /\ Broadcastable(ts, ES(objs[j])) /\ BroadcastShape(ts, ES(objs[j])) = ts
  /\ LET v == TLCEval(Index(Arr(objs[i]), UIdx(ix)))
         t == TLCEval([k |-> "U", buf |-> v.buf, shape |-> v.shape, cells |-> v.cells])
         y == TLCEval(objs[j])
     IN /\ Size(v.shape) > 0 /\ DistinctCells(t)
        /\ Broadcastable(ES(t), ES(y)) /\ BroadcastShape(ES(t), ES(y)) = ES(t)
        /\ ~objs[i].ct => ~y.ct
        /\ LET es == ES(t)
               Z == TLCEval([p \in 0..(Pg - 1) |-> [e \in 0..(Size(es) - 1) |->
                       Ser(heap, y, p, BcastSrc(TLCEval(Unravel(e, es)), ES(y), es))]])
           IN heap' = WriteU(heap, t, Z)
        /\ objs' = objs /\ hist' = Append(hist, [a |-> "setitem", i |-> i, ix |-> ix, j |-> j])
\* x[ix] = constant array: zeroth coefficient set, higher ones cleared
SetItemA(i, ix, j) ==
  /\ "setitema" \in Acts /\ CanStep /\ i \in Us /\ j \in As /\ ValidIndex(ix, ES(objs[i]))
  /\ LET ts == IndexShape(ix, ES(objs[i])) IN
       Size(ts) > 0 /\ Broadcastable(ts, ES(objs[j])) /\ BroadcastShape(ts, ES(objs[j])) = ts
  /\ LET v == TLCEval(Index(Arr(objs[i]), UIdx(ix)))
         t == TLCEval([k |-> "U", buf |-> v.buf, shape |-> v.shape, cells |-> v.cells])
         c == TLCEval(objs[j])
     IN /\ Size(v.shape) > 0 /\ DistinctCells(t)
        /\ Broadcastable(ES(t), ES(c)) /\ BroadcastShape(ES(t), ES(c)) = ES(t)
        /\ ~objs[i].ct => ~c.ct
        /\ LET es == ES(t)
               Z == TLCEval([p \in 0..(Pg - 1) |-> [e \in 0..(Size(es) - 1) |->
                       CSer(Val(heap, c, BcastSrc(TLCEval(Unravel(e, es)), ES(c), es) + 1))]])
           IN heap' = WriteU(heap, t, Z)
        /\ objs' = objs /\ hist' = Append(hist, [a |-> "setitema", i |-> i, ix |-> ix, j |-> j])
SetItemS(i, ix, c) ==
  /\ "setitems" \in Acts /\ CanStep /\ i \in Us /\ ValidIndex(ix, ES(objs[i]))
  /\ LET v == TLCEval(Index(Arr(objs[i]), UIdx(ix)))
         t == TLCEval([k |-> "U", buf |-> v.buf, shape |-> v.shape, cells |-> v.cells])
     IN /\ Size(v.shape) > 0 /\ DistinctCells(t)
        /\ ~objs[i].ct => RIsReal(c)
        /\ heap' = WriteU(heap, t, [p \in 0..(Pg - 1) |-> [e \in 0..(NE(t) - 1) |-> CSer(c)]])
        /\ objs' = objs /\ hist' = Append(hist, [a |-> "setitems", i |-> i, ix |-> ix, c |-> c])
\* x.T : reverses the element axes, a view
Transpose(i) ==
  /\ "transpose" \in Acts /\ CanGrow /\ i \in Us
  /\ LET o == objs[i]  nd == Len(o.shape)
         v == Permute(Arr(o), [a \in 1..nd |-> IF a <= 2 THEN a ELSE nd + 3 - a])
     IN /\ objs' = Append(objs, [k |-> "U", buf |-> v.buf, shape |-> v.shape, cells |-> v.cells, ct |-> objs[i].ct])
        /\ heap' = heap /\ hist' = Append(hist, [a |-> "transpose", i |-> i])
\* reshape: a view when the data is one contiguous block in element order, a copy when it is a
\* genuinely transposed matrix (the cases in which NumPy's choice is unambiguous)
Reshape(i, nes) ==
  /\ "reshape" \in Acts /\ CanGrow /\ i \in Us /\ Size(nes) = NE(objs[i]) /\ nes # ES(objs[i])
  /\ LET o == objs[i] IN
       \/ /\ Contiguous(Arr(o))
          /\ objs' = Append(objs, [k |-> "U", buf |-> o.buf, shape |-> <<Dg, Pg>> \o nes, cells |-> o.cells, ct |-> objs[i].ct])
          /\ heap' = heap /\ hist' = Append(hist, [a |-> "reshape", i |-> i, es |-> nes, view |-> TRUE])
       \/ /\ ~Contiguous(Arr(o)) /\ Len(ES(o)) = 2 /\ ES(o)[1] >= 2 /\ ES(o)[2] >= 2 /\ DistinctCells(o)
          /\ Len(objs) < MaxObjs
          /\ LET Z == TLCEval([p \in 0..(Pg - 1) |-> [e \in 0..(NE(o) - 1) |-> Ser(heap, o, p, e)]])
             IN NewObj(FreshU(heap, nes, Z), [a |-> "reshape", i |-> i, es |-> nes, view |-> FALSE])
\* sum over one element axis (0-based, negative allowed) or over all (axis = None)
Sum(i, axis) ==
  /\ "sum" \in Acts /\ CanGrow /\ i \in Us
  /\ LET o == objs[i]  es == ES(o)  nd == Len(es) IN
     /\ axis # None => (axis >= -nd /\ axis < nd)
     /\ LET ax == IF axis = None THEN 0 ELSE (IF axis < 0 THEN axis + nd ELSE axis) + 1
            res == IF axis = None THEN <<>> ELSE [a \in 1..(nd - 1) |-> IF a < ax THEN es[a] ELSE es[a + 1]]
            members(e) == IF axis = None THEN 0..(Size(es) - 1)
                          ELSE LET r == Unravel(e, res) IN
                               {Ravel([a \in 1..nd |-> IF a < ax THEN r[a] ELSE IF a = ax THEN m ELSE r[a - 1]], es)
                                  : m \in 0..(es[ax] - 1)}
            RECURSIVE SumSet(_, _)
            SumSet(S, p) == IF S = {} THEN SZero(Dg)
                            ELSE LET m == CHOOSE mm \in S : TRUE IN SAdd(Ser(heap, o, p, m), SumSet(S \ {m}, p))
            Z == TLCEval([p \in 0..(Pg - 1) |-> [e \in 0..(Size(res) - 1) |-> SumSet(members(e), p)]])
        IN NewObj(FreshU(heap, res, Z), [a |-> "sum", i |-> i, axis |-> axis])

\* ------------------------------------------------------------------ further slice-wise operations (fresh results)
\* a fresh UTPM whose element e (0-based, C order over shape res) is Src(e): either <<"z">> (zero) or <<"s", source element>>
Gather(i, res, Src(_), name, rec) ==
  /\ CanGrow /\ i \in Us
  /\ LET o == objs[i]
         Z == TLCEval([p \in 0..(Pg - 1) |-> [e \in 0..(Size(res) - 1) |->
                 LET s == Src(e) IN IF s[1] = "z" THEN SZero(Dg) ELSE Ser(heap, o, p, s[2])]])
     IN NewObj(FreshU(heap, res, Z), rec)
\* numpy.tile: reps is a sequence; both shapes are padded on the left with ones to the longer length
Tile(i, reps) ==
  /\ "tile" \in Acts /\ i \in Us
  /\ LET es == ES(objs[i])  n == Max(Len(es), Len(reps))
         pe == PadLeft(es, n)  pr == PadLeft(reps, n)
         res == [a \in 1..n |-> pe[a] * pr[a]]
     IN Gather(i, res, LAMBDA e : LET r == TLCEval(Unravel(e, res)) IN <<"s", Ravel([a \in 1..n |-> r[a] % pe[a]], pe)>>,
               "tile", [a |-> "tile", i |-> i, reps |-> reps])
\* numpy.diag: vector -> matrix with the vector on diagonal k;  matrix -> its diagonal k
MinI(a, b) == IF a < b THEN a ELSE b
DiagLen(es, k) == IF k >= 0 THEN MinI(es[1], es[2] - k) ELSE MinI(es[1] + k, es[2])
Diag(i, k) ==
  /\ "diag" \in Acts /\ i \in Us
  /\ LET es == ES(objs[i]) IN
     \/ /\ Len(es) = 1
        /\ LET m == es[1] + Abs(k) IN
           Gather(i, <<m, m>>, LAMBDA e : LET r == e \div m  c == e % m IN
                                          IF c - r = k THEN <<"s", IF k >= 0 THEN r ELSE c>> ELSE <<"z">>,
                  "diag", [a |-> "diag", i |-> i, k |-> k])
     \/ /\ Len(es) = 2 /\ DiagLen(es, k) > 0          \* any (also rectangular) matrix: min(M, N-k) resp. min(M+k, N) entries
        /\ Gather(i, <<DiagLen(es, k)>>, LAMBDA e : <<"s", (IF k >= 0 THEN e ELSE e - k) * es[2] + (IF k >= 0 THEN e + k ELSE e)>>,
                  "diag", [a |-> "diag", i |-> i, k |-> k])
Tri(which, i, k) ==
  /\ which \in Acts /\ i \in Us /\ Len(ES(objs[i])) = 2
  /\ LET es == ES(objs[i]) IN
     Gather(i, es, LAMBDA e : LET r == e \div es[2]  c == e % es[2] IN
                              IF (which = "triu" /\ c - r >= k) \/ (which = "tril" /\ c - r <= k) THEN <<"s", e>> ELSE <<"z">>,
            which, [a |-> which, i |-> i, k |-> k])
TraceOp(i) ==
  /\ "trace" \in Acts /\ CanGrow /\ i \in Us /\ Len(ES(objs[i])) = 2
  /\ LET o == objs[i]  n == MinI(ES(o)[1], ES(o)[2])  nc == ES(o)[2]        \* (rectangular too: the min(M, N) diagonal entries)
         Z == TLCEval([p \in 0..(Pg - 1) |-> [e \in 0..0 |->
                 LET acc[m \in 0..n] == IF m = 0 THEN SZero(Dg) ELSE SAdd(acc[m - 1], Ser(heap, o, p, (m - 1) * nc + (m - 1))) IN acc[n]]])
     IN NewObj(FreshU(heap, <<>>, Z), [a |-> "trace", i |-> i])
\* zeros / ones of a given shape with the "data type" of polynomial i
Const(which, i, res) ==
  /\ which \in Acts /\ CanGrow /\ i \in Us
  /\ LET Z == TLCEval([p \in 0..(Pg - 1) |-> [e \in 0..(Size(res) - 1) |-> IF which = "ones" THEN SOne(Dg) ELSE SZero(Dg)]])
     IN NewObj(FreshU(heap, res, Z), [a |-> which, i |-> i, es |-> res])

\* ------------------------------------------------------------------ complex-valued slice-wise operations
\* (in the real instance conjugate / real are the identity and imag is zero)
CplxOp(f, i) ==
  /\ f \in Acts /\ CanGrow /\ i \in Us
  /\ LET x == objs[i]
         Z == TLCEval([p \in 0..(Pg - 1) |-> [e \in 0..(NE(x) - 1) |->
                 LET s == Ser(heap, x, p, e) IN [d \in 1..Dg |-> CASE f = "conjugate" -> RConjS(s[d]) [] f = "real" -> RRe(s[d]) [] f = "imag" -> RIm(s[d])]]])
     IN NewObj(FreshU(heap, ES(x), Z), [a |-> f, i |-> i])
\* fft / ifft along the last axis for lengths 1, 2, 4 (the roots of unity are Gaussian integers): X_k = sum_j x_j w^(jk)
Omega(n, m, inverse) ==        \* exp(-+ 2 pi i m / n) for n in {1, 2, 4}
  LET mm == (((IF inverse THEN 0 - m ELSE m) % n) + n) % n
      q == (mm * 4) \div n      \* quarter turns clockwise
  IN CASE q = 0 -> ROne [] q = 1 -> RCx(RZero, RFrac(-1, 1)) [] q = 2 -> RFrac(-1, 1) [] q = 3 -> RCx(RZero, ROne)
FFT(inverse, i) ==
  /\ (IF inverse THEN "ifft" ELSE "fft") \in Acts /\ CanGrow /\ i \in Us /\ Len(ES(objs[i])) >= 1
  /\ ES(objs[i])[Len(ES(objs[i]))] \in {1, 2, 4}
  /\ LET x == objs[i]  es == ES(x)  n == es[Len(es)]
         Z == TLCEval([p \in 0..(Pg - 1) |-> [e \in 0..(NE(x) - 1) |->
                 LET k == e % n  base == e - k
                     acc[j \in 0..n] == IF j = 0 THEN SZero(Dg)
                                        ELSE SAdd(acc[j - 1], SScale(Omega(n, (j - 1) * k, inverse), Ser(heap, x, p, base + j - 1)))
                 IN IF inverse THEN SScale(RFrac(1, n), acc[n]) ELSE acc[n]]])
     IN NewObj(FreshU(heap, es, Z), [a |-> IF inverse THEN "ifft" ELSE "fft", i |-> i])

\* ------------------------------------------------------------------ comparisons
\* x rel y is the truth value of the NumPy comparison of the ZEROTH coefficients over all elements and directions
Rel(rel, a, b) == CASE rel = "lt" -> RLt(a, b) [] rel = "le" -> RLe(a, b) [] rel = "gt" -> RLt(b, a) [] rel = "ge" -> RLe(b, a)
                    [] rel = "eq" -> a = b [] rel = "ne" -> a # b
CmpUU(rel, i, j) ==
  /\ "cmp" \in Acts /\ CanStep /\ i \in Us /\ j \in Us /\ Broadcastable(ES(objs[i]), ES(objs[j]))
  /\ LET x == objs[i]  y == objs[j]  es == BroadcastShape(ES(x), ES(y))
         res == \A p \in 0..(Pg - 1) : \A e \in 0..(Size(es) - 1) :
                   LET r == TLCEval(Unravel(e, es)) IN
                   Rel(rel, Val(heap, x, Pos(x, 1, p, BcastSrc(r, ES(x), es))), Val(heap, y, Pos(y, 1, p, BcastSrc(r, ES(y), es))))
     IN hist' = Append(hist, [a |-> "cmp", rel |-> rel, i |-> i, j |-> j, c |-> RZero, res |-> (res = TRUE)])
  /\ UNCHANGED <<heap, objs>>
CmpUS(rel, i, c) ==
  /\ "cmp" \in Acts /\ CanStep /\ i \in Us
  /\ LET x == objs[i]
         res == \A p \in 0..(Pg - 1) : \A e \in 0..(NE(x) - 1) : Rel(rel, Val(heap, x, Pos(x, 1, p, e)), c)
     IN hist' = Append(hist, [a |-> "cmp", rel |-> rel, i |-> i, j |-> 0, c |-> c, res |-> (res = TRUE)])
  /\ UNCHANGED <<heap, objs>>

Next ==
  \/ \E op \in {"add", "sub", "mul", "div"} : \E i \in 1..Len(objs) : \E j \in 1..Len(objs) :
        \/ Bin(op, i, j) \/ IBin(op, i, j) \/ IBinA(op, i, j)
        \/ \E side \in {"l", "r"} : BinA(op, i, j, side)
  \/ \E op \in {"add", "sub", "mul", "div"} : \E i \in 1..Len(objs) : \E c \in Scalars :
        \/ IBinS(op, i, c) \/ \E side \in {"l", "r"} : BinS(op, i, c, side)
  \/ \E i \in 1..Len(objs) :
        \/ \E n \in {-2, -1, 0, 1, 2, 3, 4} : PowI(i, n)
        \/ \E f \in {"neg", "square", "reciprocal", "clone", "zeros_like"} : Unary(f, i)
        \/ \E ix \in IdxCat : GetItem(i, ix)
        \/ \E ix \in IdxCat : \E j \in 1..Len(objs) : SetItem(i, ix, j) \/ SetItemA(i, ix, j)
        \/ \E ix \in IdxCat : \E c \in Scalars : SetItemS(i, ix, c)
        \/ Transpose(i)
        \/ \E nes \in ReshapeCat : Reshape(i, nes)
        \/ \E ax \in {None, 0, 1, -1, -2} : Sum(i, ax)
        \/ \E reps \in TileCat : Tile(i, reps)
        \/ \E k \in {-2, -1, 0, 1, 2} : Diag(i, k) \/ Tri("triu", i, k) \/ Tri("tril", i, k)
        \/ TraceOp(i)
        \/ \E f \in {"conjugate", "real", "imag"} : CplxOp(f, i)
        \/ FFT(FALSE, i) \/ FFT(TRUE, i)
        \/ \E res \in ReshapeCat : Const("zeros", i, res) \/ Const("ones", i, res)
        \/ \E rel \in {"lt", "le", "gt", "ge", "eq"} : (\E j \in 1..Len(objs) : CmpUU(rel, i, j)) \/ (\E c \in CmpScalars : CmpUS(rel, i, c))

\* ------------------------------------------------------------------ properties of the design
TypeOK == \A i \in 1..Len(objs) :
  /\ objs[i].buf \in 1..Len(heap)
  /\ Len(objs[i].cells) = Size(objs[i].shape)
  /\ \A k \in 1..Len(objs[i].cells) : objs[i].cells[k] \in 1..Len(heap[objs[i].buf])
\* C14 frame condition: an action that is not in place changes no existing cell; an in-place action
\* changes only cells of its left operand.
InPlaceActs == {"ibin", "ibina", "ibins", "setitem", "setitema", "setitems"}
Frame == [][LET rec == hist'[Len(hist')] IN
             /\ Len(heap') >= Len(heap)
             /\ \A b \in 1..Len(heap) : \A c \in 1..Len(heap[b]) :
                  heap'[b][c] # heap[b][c] =>
                    /\ rec.a \in InPlaceActs
                    /\ <<b, c>> \in CellSet(Arr(objs[rec.i]))
             /\ \A i \in 1..Len(objs) : objs'[i] = objs[i]]_vars
\* C13 view semantics: exactly the results of indexing, transposition and view-reshape share memory
ViewSemantics == [][LET rec == hist'[Len(hist')] IN
             Len(objs') > Len(objs) =>
               LET r == objs'[Len(objs')] IN
               IF rec.a \in {"getitem", "transpose"} \/ (rec.a = "reshape" /\ rec.view)
               THEN IsViewOf(Arr(r), Arr(objs[rec.i]))
               ELSE \A i \in 1..Len(objs) : ~Overlap(Arr(r), Arr(objs[i]))]_vars
Small == \A b \in 1..Len(heap) : \A c \in 1..Len(heap[b]) :
            RSmall(heap[b][c], MaxAbs)
=============================================================================
