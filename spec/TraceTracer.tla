----------------------------- MODULE TraceTracer -----------------------------
(* T: validation of traces RECORDED FROM THE REAL CODE (run-time probe around the     *)
(* linearisation points of tracer.py) against the protocol of the tracer:             *)
(*  - recording: a node is appended to the graph that is recording, exactly once, its  *)
(*    ID is its position, its operands are earlier nodes; nothing while recording is   *)
(*    off (C05 RecordOnce);                                                            *)
(*  - re-evaluation visits every node once, in list order (C05);                       *)
(*  - reverse sweep: adjoints are initialised for every node in list order and the     *)
(*    adjoint of a node shares memory with its parent's adjoint exactly when its value *)
(*    shares memory with the parent's value (C03 mirror aliasing); every node is       *)
(*    pulled back exactly once in reverse order (C03); afterwards the in-place writes  *)
(*    are redone in recording order and every forward value is what it was before the  *)
(*    sweep (C06);                                                                     *)
(*  - time consistency: when node k is pulled back, the forward values of its operands  *)
(*    are those it read and produced when it was last evaluated (C03/C06: the restore   *)
(*    protocol for in-place writes).                                                    *)
(* One TLC run validates a whole batch: tid is chosen in Init, accepted trace ids are   *)
(* collected in TLCSet(1, ..), the postcondition lists the rejected ones.               *)
EXTENDS Integers, Sequences, FiniteSets, TLC, Json, IOUtils

Log == JsonDeserialize(IOEnv.TRACE_FILE)        \* JSON array of traces, each an array of events
NT == Len(Log)
ASSUME TLCSet(1, {})

VARIABLES tid, l,
          cur,        \* id of the graph that is recording, 0 = off
          graphs,     \* Seq over graph id of [n, sets, dig]
          nodes,      \* Seq over node id of [g, pos]   (g = 0: created while recording was off)
          mode        \* <<"idle">> | <<"fwd", g, next>> | <<"pb", g, phase, next, todo, dig>>
vars == <<tid, l, cur, graphs, nodes, mode>>

Ev == Log[tid][l]
IsEvent(e) == l <= Len(Log[tid]) /\ Log[tid][l].ev = e /\ l' = l + 1
Idle == mode = <<"idle">>

Init == /\ tid \in 1..NT /\ l = 1 /\ cur = 0 /\ graphs = <<>> /\ nodes = <<>> /\ mode = <<"idle">>

NewGraph == /\ IsEvent("NewGraph") /\ Ev.g = Len(graphs) + 1
            /\ graphs' = Append(graphs, [n |-> 0, dig |-> <<>>, ad |-> <<>>]) /\ cur' = Ev.g
            /\ UNCHANGED <<nodes, mode>>
TraceOn  == IsEvent("TraceOn") /\ Ev.g \in 1..Len(graphs) /\ cur' = Ev.g /\ UNCHANGED <<graphs, nodes, mode>>
TraceOff == IsEvent("TraceOff") /\ Ev.g \in 1..Len(graphs) /\ cur' = 0 /\ UNCHANGED <<graphs, nodes, mode>>

\* Function.create: appended iff a graph is recording; ID = position = previous length; operands are earlier nodes
Create ==
  /\ IsEvent("Create") /\ Ev.n = Len(nodes) + 1
  /\ \A i \in 1..Len(Ev.args) : Ev.args[i] \in 1..Len(nodes)
  /\ IF cur # 0
     THEN /\ Ev.g = cur /\ Ev.before = graphs[cur].n /\ Ev.id = Ev.before /\ Ev.pos = Ev.before /\ Ev.cnt = Ev.before + 1
          /\ \A i \in 1..Len(Ev.args) : nodes[Ev.args[i]].g = cur => nodes[Ev.args[i]].pos < Ev.pos
          /\ graphs' = [graphs EXCEPT ![cur].n = @ + 1, ![cur].ad = Append(@, Ev.ad)]
          /\ nodes' = Append(nodes, [g |-> cur, pos |-> Ev.pos])
     ELSE /\ Ev.g = 0 /\ Ev.id = -1 /\ Ev.pos = -1
          /\ graphs' = graphs /\ nodes' = Append(nodes, [g |-> 0, pos |-> -1])
  /\ UNCHANGED <<cur, mode>>

FwdBegin == /\ IsEvent("FwdBegin") /\ Idle /\ Ev.g \in 1..Len(graphs) /\ Ev.n = graphs[Ev.g].n
            /\ mode' = <<"fwd", Ev.g, 0>> /\ UNCHANGED <<cur, graphs, nodes>>
FwdNode  == /\ IsEvent("FwdNode") /\ mode[1] = "fwd" /\ Ev.g = mode[2] /\ Ev.k = mode[3]
            /\ graphs' = [graphs EXCEPT ![Ev.g].ad[Ev.k + 1] = Ev.ad]
            /\ mode' = <<"fwd", mode[2], mode[3] + 1>> /\ UNCHANGED <<cur, nodes>>
FwdEnd   == /\ IsEvent("FwdEnd") /\ mode[1] = "fwd" /\ Ev.g = mode[2]
            /\ Ev.ok => mode[3] = graphs[Ev.g].n
            /\ graphs' = [graphs EXCEPT ![Ev.g].dig = Ev.dig]
            /\ mode' = <<"idle">> /\ UNCHANGED <<cur, nodes>>

PbBegin == /\ IsEvent("PbBegin") /\ Idle /\ Ev.g \in 1..Len(graphs) /\ Ev.n = graphs[Ev.g].n
           \* the values the sweep starts from are those the last forward evaluation produced
           \* (nodes recorded after that evaluation have no earlier value to compare with)
           /\ (graphs[Ev.g].dig # <<>> /\ Len(graphs[Ev.g].dig) <= Len(Ev.dig)) => SubSeq(Ev.dig, 1, Len(graphs[Ev.g].dig)) = graphs[Ev.g].dig
           /\ mode' = <<"pb", Ev.g, "init", 0, Ev.sets, Ev.dig>> /\ UNCHANGED <<cur, graphs, nodes>>
BarInit == /\ IsEvent("BarInit") /\ mode[1] = "pb" /\ mode[3] = "init" /\ Ev.g = mode[2] /\ Ev.k = mode[4]
           /\ Ev.bshare = Ev.vshare                      \* mirror aliasing
           /\ Ev.vshare < Ev.k
           /\ mode' = IF Ev.k + 1 = graphs[Ev.g].n THEN <<"pb", mode[2], "sweep", Ev.k, mode[5], mode[6]>>
                      ELSE <<"pb", mode[2], "init", Ev.k + 1, mode[5], mode[6]>>
           /\ UNCHANGED <<cur, graphs, nodes>>
PbNode  == /\ IsEvent("PbNode") /\ mode[1] = "pb" /\ mode[3] = "sweep" /\ Ev.g = mode[2] /\ Ev.k = mode[4]
           /\ Ev.ad = graphs[Ev.g].ad[Ev.k + 1]            \* time consistency
           /\ mode' = IF Ev.k = 0 THEN <<"pb", mode[2], "redo", 0, mode[5], mode[6]>>
                      ELSE <<"pb", mode[2], "sweep", Ev.k - 1, mode[5], mode[6]>>
           /\ UNCHANGED <<cur, graphs, nodes>>
Redo    == /\ IsEvent("Redo") /\ mode[1] = "pb" /\ mode[3] = "redo" /\ Ev.g = mode[2]
           /\ mode[5] # <<>> /\ Ev.k = Head(mode[5])
           /\ mode' = <<"pb", mode[2], "redo", 0, Tail(mode[5]), mode[6]>>
           /\ UNCHANGED <<cur, graphs, nodes>>
PbEnd   == /\ IsEvent("PbEnd") /\ mode[1] = "pb" /\ Ev.g = mode[2]
           /\ Ev.ok => /\ mode[3] = "redo" \/ graphs[Ev.g].n = 0
                       /\ mode[5] = <<>>                  \* every in-place write has been redone
                       /\ Ev.dig = mode[6]                \* forward values are what they were before the sweep
           /\ mode' = <<"idle">> /\ UNCHANGED <<cur, graphs, nodes>>

Next == (NewGraph \/ TraceOn \/ TraceOff \/ Create \/ FwdBegin \/ FwdNode \/ FwdEnd \/ PbBegin \/ BarInit \/ PbNode \/ Redo \/ PbEnd)
        /\ UNCHANGED tid
Mark == (l = Len(Log[tid]) + 1) => TLCSet(1, TLCGet(1) \cup {tid})
\* the longest matched prefix per trace (diagnostics for rejected traces)
Reach == TLCSet(tid + 1, IF TLCGet(tid + 1) = FALSE \/ TLCGet(tid + 1) < l THEN l ELSE TLCGet(tid + 1))
Rejected == (1..NT) \ TLCGet(1)
Post == IF Rejected = {} THEN TRUE ELSE PrintT(<<"REJECTED", Rejected>>) /\ FALSE
=============================================================================
