------------------------------- MODULE NDA -------------------------------
(* N-dimensional arrays as views on a heap.  An array object is                    *)
(*    [buf |-> heap buffer, shape |-> <<n1,..>>, cells |-> <<c1,..>>]              *)
(* where cells lists, in C order, the buffer position of every element.  Explicit   *)
(* cell lists instead of strides: sharing of memory is equality of (buf, cell).     *)
EXTENDS Integers, Sequences, FiniteSets, TLC

None == 99              \* "omitted" slice bound

RECURSIVE ProdSeq(_)
ProdSeq(s) == IF s = <<>> THEN 1 ELSE Head(s) * ProdSeq(Tail(s))
Size(shape) == ProdSeq(shape)
\* stride (in elements) of axis a for a C-contiguous array of this shape
Stride(shape, a) == ProdSeq(SubSeq(shape, a + 1, Len(shape)))
\* k: 0-based flat index  ->  0-based multi-index
Unravel(k, shape) == [a \in 1..Len(shape) |-> (k \div Stride(shape, a)) % shape[a]]
RECURSIVE SumSeq(_)
SumSeq(s) == IF s = <<>> THEN 0 ELSE Head(s) + SumSeq(Tail(s))
Ravel(idx, shape) == SumSeq([a \in 1..Len(shape) |-> idx[a] * Stride(shape, a)])
Iota(n) == [k \in 1..n |-> k]

Max(a, b) == IF a > b THEN a ELSE b
Min(a, b) == IF a < b THEN a ELSE b

\* ---------------------------------------------------------------- basic indexing
\* index items:  <<"i", n>>   <<"s", lo, hi, step>> (lo, hi may be None)   <<"n">> newaxis   <<"e">> Ellipsis
Consumes(it) == IF it[1] \in {"i", "s"} THEN 1 ELSE 0
NumConsumed(ix) == SumSeq([k \in 1..Len(ix) |-> Consumes(ix[k])])
FullSlice == <<"s", None, None, 1>>
HasEll(ix) == \E k \in 1..Len(ix) : ix[k][1] = "e"
\* replace the Ellipsis (or pad at the end) by full slices so that every axis is consumed
Expand(ix, nd) ==
  LET fill == TLCEval([k \in 1..(nd - NumConsumed(ix)) |-> FullSlice])
  IN IF HasEll(ix)
     THEN LET p == CHOOSE k \in 1..Len(ix) : ix[k][1] = "e"
          IN SubSeq(ix, 1, p - 1) \o fill \o SubSeq(ix, p + 1, Len(ix))
     ELSE ix \o fill
CeilDiv(a, b) == (a + b - 1) \div b          \* b > 0
\* Python's slice.indices(n): the selected source indices, in order
SliceSel(lo, hi, st, n) == TLCEval(
  IF st > 0 THEN
    LET l0 == IF lo = None THEN 0 ELSE IF lo < 0 THEN Max(lo + n, 0) ELSE Min(lo, n)
        h0 == IF hi = None THEN n ELSE IF hi < 0 THEN Max(hi + n, 0) ELSE Min(hi, n)
        cnt == IF h0 > l0 THEN CeilDiv(h0 - l0, st) ELSE 0
    IN [j \in 1..cnt |-> l0 + (j - 1) * st]
  ELSE
    LET l0 == IF lo = None THEN n - 1 ELSE IF lo < 0 THEN Max(lo + n, -1) ELSE Min(lo, n - 1)
        h0 == IF hi = None THEN -1 ELSE IF hi < 0 THEN Max(hi + n, -1) ELSE Min(hi, n - 1)
        cnt == IF l0 > h0 THEN CeilDiv(l0 - h0, -st) ELSE 0
    IN [j \in 1..cnt |-> l0 + (j - 1) * st])
IntSel(i, n) == <<IF i < 0 THEN i + n ELSE i>>
\* per position k of the expanded index: number of source axes consumed up to and including k
AxisOf(ex) == TLCEval([k \in 0..Len(ex) |-> SumSeq([m \in 1..k |-> Consumes(ex[m])])])
\* is the index expression valid for this shape (NumPy would not raise)?
ValidIndex(ix, shape) ==
  /\ NumConsumed(ix) <= Len(shape)
  /\ Cardinality({k \in 1..Len(ix) : ix[k][1] = "e"}) <= 1
  /\ LET ex == TLCEval(Expand(ix, Len(shape)))
         ax == TLCEval(AxisOf(ex))
     IN \A k \in 1..Len(ex) : ex[k][1] = "i" => (ex[k][2] >= -shape[ax[k]] /\ ex[k][2] < shape[ax[k]])
\* result of a[ix]: shape and, per result element in C order, the flat source element (0-based)
Sel(ex, ax, shape) ==
  TLCEval([a \in 1..Len(shape) |->
     LET it == TLCEval(ex[CHOOSE k \in 1..Len(ex) : Consumes(ex[k]) = 1 /\ ax[k] = a])
     IN IF it[1] = "i" THEN IntSel(it[2], shape[a]) ELSE SliceSel(it[2], it[3], it[4], shape[a])])
\* result shape only: slices and newaxes, in item order
IndexShape(ix, shape) ==
  LET ex == TLCEval(Expand(ix, Len(shape)))
      ax == TLCEval(AxisOf(ex))
      sel == TLCEval(Sel(ex, ax, shape))
      rs[k \in 0..Len(ex)] == IF k = 0 THEN <<>>
                              ELSE IF ex[k][1] = "s" THEN Append(rs[k - 1], Len(sel[ax[k]]))
                              ELSE IF ex[k][1] = "n" THEN Append(rs[k - 1], 1) ELSE rs[k - 1]
  IN rs[Len(ex)]
IndexMap(ix, shape) ==
  LET nd == TLCEval(Len(shape))
      ex == TLCEval(Expand(ix, nd))
      ax == TLCEval(AxisOf(ex))
      sel == TLCEval(Sel(ex, ax, shape))
      lens == TLCEval([a \in 1..nd |-> Len(sel[a])])
      total == TLCEval(ProdSeq(lens))
      st == TLCEval([a \in 1..nd |-> Stride(shape, a)])
      ls == TLCEval([a \in 1..nd |-> Stride(lens, a)])
  IN [shape |-> IndexShape(ix, shape),
      src |-> TLCEval([k \in 1..total |->
                 SumSeq([a \in 1..nd |-> sel[a][(((k - 1) \div ls[a]) % lens[a]) + 1] * st[a]])])]
Index(arr, ix) ==
  LET m == TLCEval(IndexMap(ix, arr.shape))
  IN [buf |-> arr.buf, shape |-> m.shape, cells |-> TLCEval([k \in 1..Len(m.src) |-> arr.cells[m.src[k] + 1]])]

\* ---------------------------------------------------------------- axes permutation, reshape
\* perm[a] = source axis that becomes result axis a
Permute(arr, perm) ==
  LET nd == TLCEval(Len(arr.shape))
      ns == TLCEval([a \in 1..nd |-> arr.shape[perm[a]]])
      inv == TLCEval([s \in 1..nd |-> CHOOSE a \in 1..nd : perm[a] = s])
  IN [buf |-> arr.buf, shape |-> ns,
      cells |-> TLCEval([k \in 1..Size(ns) |-> LET j == TLCEval(Unravel(k - 1, ns))
                                       IN arr.cells[Ravel([s \in 1..nd |-> j[inv[s]]], arr.shape) + 1]])]
Reverse(s) == [k \in 1..Len(s) |-> s[Len(s) - k + 1]]
\* is the element order of this view the memory order of one contiguous block?
Contiguous(arr) == \A k \in 1..(Len(arr.cells) - 1) : arr.cells[k + 1] = arr.cells[k] + 1
SameOrderView(arr, newshape) == [buf |-> arr.buf, shape |-> newshape, cells |-> arr.cells]

\* ---------------------------------------------------------------- broadcasting (NumPy rule)
PadLeft(s, n) == [k \in 1..n |-> IF k <= n - Len(s) THEN 1 ELSE s[k - (n - Len(s))]]
Broadcastable(s1, s2) ==
  LET n == Max(Len(s1), Len(s2))  a == PadLeft(s1, n)  b == PadLeft(s2, n)
  IN (\A k \in 1..n : a[k] = b[k] \/ a[k] = 1 \/ b[k] = 1) = TRUE
BroadcastShape(s1, s2) ==
  LET n == Max(Len(s1), Len(s2))  a == PadLeft(s1, n)  b == PadLeft(s2, n)
  IN [k \in 1..n |-> Max(a[k], b[k])]
\* flat source element (0-based) of an array of shape s seen at result multi-index r of shape rs
BcastSrc(r, s, rs) ==
  LET n == Len(rs)  off == n - Len(s)
  IN Ravel([a \in 1..Len(s) |-> IF s[a] = 1 THEN 0 ELSE r[a + off]], s)
BroadcastTo(arr, rs) ==
  [buf |-> arr.buf, shape |-> rs,
   cells |-> TLCEval([k \in 1..Size(rs) |-> arr.cells[BcastSrc(TLCEval(Unravel(k - 1, rs)), arr.shape, rs) + 1]])]

\* ---------------------------------------------------------------- memory relations
CellSet(arr) == {<<arr.buf, arr.cells[k]>> : k \in 1..Len(arr.cells)}
Overlap(a, b) == CellSet(a) \cap CellSet(b) # {}
IsViewOf(a, b) == CellSet(a) \subseteq CellSet(b)
=============================================================================
