------------------------------ MODULE MC_Conv ------------------------------
EXTENDS Conv, TLC, Json
CONSTANTS MaxN, Emit, ShapeCat
VARIABLES kind, n, piv, shp, D, P
vars == <<kind, n, piv, shp, D, P>>

ShapesA == { <<>>, <<2>>, <<3>>, <<2, 3>>, <<3, 1, 2>> }
ShapesB == { <<>>, <<2>>, <<2, 3>> }
Pivs(N) == {pv \in [1..N -> 0..(N - 1)] : IsPiv(pv)}
Init ==
  \/ /\ kind = "piv" /\ n \in 1..MaxN /\ piv \in Pivs(n) /\ shp = <<>> /\ D = 0 /\ P = 0
  \/ /\ kind = "dirs" /\ n = 0 /\ piv = <<>> /\ shp \in ShapeCat /\ D \in 1..3 /\ P \in 1..3
  \/ /\ kind = "sym" /\ n \in 1..MaxN /\ piv = <<>> /\ shp = <<>> /\ D = 0 /\ P = 0
  \/ /\ kind = "shift" /\ n \in 0..4 /\ piv = <<>> /\ shp = <<>> /\ D \in 1..5 /\ P = 0
Next == UNCHANGED vars

\* ---- theorems
PivOK == kind = "piv" =>
  /\ IsPermutation(PermOf(piv))
  /\ SignOf(piv) = SignByInversions(PermOf(piv))
  /\ \A r \in 1..n : Cardinality({k \in 1..n : PermMatrix(piv)[r][k] = 1}) = 1
PivCount == kind = "piv" => Cardinality(Pivs(n)) = (LET f[m \in 0..n] == IF m = 0 THEN 1 ELSE m * f[m - 1] IN f[n])
\* utpm2dirs is a bijection of cells; base/dirs round trip covers every cell once
DirsOK == kind = "dirs" =>
  /\ LET m == Utpm2Dirs(D, P, shp) IN {m.src[k] : k \in 1..Len(m.src)} = 0..(D * P * Size(shp) - 1)
  /\ LET s == Dirs2UtpmSrc(D, P, shp) IN
       /\ {s[k][2] : k \in {kk \in 1..Len(s) : s[kk][1] = "V"}} = 0..((D - 1) * P * Size(shp) - 1)
       /\ \A k \in 1..Len(s) : s[k][1] = "x" => s[k][2] \in 0..(Size(shp) - 1)
\* vecsym(symvec(A)) = A for symmetric A: every matrix entry reads the vector entry fed by itself or its mirror
SymOK == kind = "sym" =>
  \A uplo \in {"F", "L", "U"} : \A k \in 1..(n * n) :
     LET r == (k - 1) \div n  c == (k - 1) % n
         srcs == SymVecSrc(n, uplo)[VecSymIdx(n)[k]]
     IN \A q \in 1..Len(srcs) : srcs[q] \in {r * n + c, c * n + r}
\* shift by s then -s is the identity on the retained part
ShiftOK == kind = "shift" =>
  \A s \in (0 - n)..n : \A d \in 0..(D - 1) :
     LET a == ShiftSrc(D, s)  b == ShiftSrc(D, 0 - s) IN
       (b[d] # -1 /\ a[b[d]] # -1) => a[b[d]] = d
EmitState == Emit =>
  CASE kind = "piv" -> PrintT(ToJson([kind |-> kind, piv |-> piv, perm |-> PermOf(piv), sign |-> SignOf(piv), P |-> PermMatrix(piv)]))
    [] kind = "dirs" -> PrintT(ToJson([kind |-> kind, D |-> D, P |-> P, es |-> shp, u2d |-> Utpm2Dirs(D, P, shp), d2u |-> Dirs2UtpmSrc(D, P, shp),
                                        asu |-> AsUtpmSrc(shp, <<2>>)]))
    [] kind = "sym" -> PrintT(ToJson([kind |-> kind, N |-> n, vecsym |-> VecSymIdx(n),
                                      F |-> SymVecSrc(n, "F"), L |-> SymVecSrc(n, "L"), U |-> SymVecSrc(n, "U")]))
    [] kind = "shift" -> PrintT(ToJson([kind |-> kind, D |-> D, smax |-> n, maps |-> [s \in (0 - n)..n |-> ShiftSrc(D, s)]]))
=============================================================================
