------------------------------- MODULE Rat -------------------------------
(* Exact rational numbers as normalised pairs <<num, den>>, den > 0, gcd = 1.      *)
(* TLC integers are 32 bit and overflow is an evaluation error (never a wrap), so   *)
(* an instance that is too large stops the run instead of giving a wrong oracle.    *)
EXTENDS Integers, Sequences

Abs(x) == IF x < 0 THEN -x ELSE x

RECURSIVE GCD(_, _)
GCD(a, b) == IF b = 0 THEN a ELSE GCD(b, a % b)

RNorm(n, d) ==
  LET s == IF d < 0 THEN -1 ELSE 1
      g == GCD(Abs(n), Abs(d))
  IN  IF n = 0 THEN <<0, 1>> ELSE <<(s * n) \div g, (s * d) \div g>>

RZero == <<0, 1>>
ROne  == <<1, 1>>
RInt(i) == <<i, 1>>
RFrac(n, d) == RNorm(n, d)
IsRat(q) == /\ q \in Int \X Int /\ q[2] > 0 /\ GCD(Abs(q[1]), q[2]) = 1

RNeg(a) == <<-a[1], a[2]>>
RAdd(a, b) ==
  IF a[2] = b[2] THEN RNorm(a[1] + b[1], a[2])
  ELSE LET g == GCD(a[2], b[2])
           l == (a[2] \div g) * b[2]
       IN  RNorm(a[1] * (l \div a[2]) + b[1] * (l \div b[2]), l)
RSub(a, b) == RAdd(a, RNeg(b))
RMul(a, b) ==
  IF a[1] = 0 \/ b[1] = 0 THEN RZero
  ELSE LET g1 == GCD(Abs(a[1]), b[2])
           g2 == GCD(Abs(b[1]), a[2])
       IN  <<(a[1] \div g1) * (b[1] \div g2), (a[2] \div g2) * (b[2] \div g1)>>
RInv(a) == IF a[1] < 0 THEN <<-a[2], -a[1]>> ELSE <<a[2], a[1]>>     \* a # 0
RDiv(a, b) == RMul(a, RInv(b))
RLt(a, b) == a[1] * b[2] < b[1] * a[2]
RLe(a, b) == a[1] * b[2] <= b[1] * a[2]
RIsZero(a) == a[1] = 0
RIsInt(a) == a[2] = 1
RAbs(a) == <<Abs(a[1]), a[2]>>
RCx(re, im) == re                       \* real instance: the imaginary part is not representable (only used with im = 0)
RIsReal(a) == TRUE
RConjS(a) == a
RRe(a) == a
RIm(a) == <<0, 1>>
RSmall(a, M) == Abs(a[1]) <= M /\ a[2] <= M

RECURSIVE RPowNat(_, _)
RPowNat(a, n) == IF n = 0 THEN ROne ELSE RMul(a, RPowNat(a, n - 1))

RECURSIVE RSumSeq(_)
RSumSeq(s) == IF s = <<>> THEN RZero ELSE RAdd(Head(s), RSumSeq(Tail(s)))
RECURSIVE RProdSeq(_)
RProdSeq(s) == IF s = <<>> THEN ROne ELSE RMul(Head(s), RProdSeq(Tail(s)))

\* sum of f(i) for i in lo..hi  (f an operator argument is not allowed to be recursive: use a function)
RSumFn(f, lo, hi) == RSumSeq([i \in 1..(hi - lo + 1) |-> f[lo + i - 1]])
=============================================================================
