---------------------------- MODULE MC_FwdDrivers ----------------------------
EXTENDS FwdDrivers, Json
CONSTANTS MaxN, MaxDeg, MaxTensor, Emit, PtVals, VVals
VARIABLES alpha, pt, v
vars == <<alpha, pt, v>>
PV == -1..2
PW == {-1, 1, 2}
PS == {1, 2}
\* (the instances are successors of one initial state so that TLC's workers share them)
Init == alpha = <<>> /\ pt = <<>> /\ v = <<>>
Next == \/ /\ alpha = <<>>
           /\ \E NN \in 1..MaxN : alpha' \in {a \in [1..NN -> 0..MaxDeg] : SumSeqInt(a) <= MaxDeg /\ SumSeqInt(a) >= 1}
           /\ UNCHANGED <<pt, v>>
        \/ /\ alpha # <<>> /\ pt = <<>>
           /\ pt' \in [1..Len(alpha) -> PtVals] /\ v' \in [1..Len(alpha) -> VVals]
           /\ UNCHANGED alpha
N == Len(alpha)
\* M: extraction o propagation o seeding = exact derivative, for every monomial and integer point
JacobianOK == pt = <<>> \/ \A k \in 1..N : ExtractJacobian(alpha, pt, k) = RInt(Grad(alpha, pt, k))
JacVecOK == pt = <<>> \/ ExtractJacVec(alpha, pt, v) = RInt(SumSeqInt([k \in 1..N |-> Grad(alpha, pt, k) * v[k]]))
HessianOK == pt = <<>> \/ \A i \in 1..N : \A j \in 1..N : ExtractHessian(alpha, pt, i, j) = RInt(Hess(alpha, pt, i, j))
HessVecOK == pt = <<>> \/ \A n \in 1..N : ExtractHessVec(alpha, pt, v, n) = RInt(SumSeqInt([k \in 1..N |-> Hess(alpha, pt, n, k) * v[k]]))
TensorOK == pt = <<>> \/ \A d \in 1..MaxTensor : \A i \in MultiIdx(N, d) : ExtractTensor(alpha, pt, d, i) = RInt(PartialOverFact(alpha, i, pt))
SeedCounts == pt = <<>> \/ (Cardinality(HessianSeeds(N)) = (N * (N + 1)) \div 2 /\ Cardinality(JacobianSeeds(N)) = N)
EmitState == (Emit /\ pt # <<>>) => PrintT(ToJson([alpha |-> alpha, pt |-> pt, v |-> v,
    jac |-> [k \in 1..N |-> Grad(alpha, pt, k)],
    hess |-> [i \in 1..N |-> [j \in 1..N |-> Hess(alpha, pt, i, j)]],
    tensor |-> [d \in 1..MaxTensor |-> [i \in MultiIdx(N, d) |-> PartialOverFact(alpha, i, pt)]],
    hseeds |-> HessianSeeds(N), hvseeds |-> HessVecSeeds(N, v)]))
=============================================================================
