\* GENERATED from Factor.tla by tools/gen_complex.py - do not edit
------------------------------- MODULE CFactor -------------------------------
(* Matrix factorizations of series matrices, by construction.  TLC cannot factor    *)
(* an irrational A_0 - it does not need to: for a factorization with a regular A_0  *)
(* the Taylor factors are unique once the order-0 factors are fixed, so instances   *)
(* are built FROM rational factor series: an exactly orthogonal Q(t) is the Cayley   *)
(* transform of a skew-symmetric series S(t) with S_0 = 0 applied to a rational     *)
(* orthogonal Q_0; R(t), L(t), U(t), Lambda(t), s(t) are integer series.            *)
EXTENDS CLinAlg

Zero(n, m, D) == Mat(n, m, LAMBDA i, j : SZero(D))
MSub(A, B) == [shape |-> A.shape, v |-> [k \in 1..Len(A.v) |-> SSub(A.v[k], B.v[k])]]
ConstMat(rows, D) == Mat(Len(rows), Len(rows[1]), LAMBDA i, j : SConst(rows[i + 1][j + 1], D))
\* (I - S)^{-1} = I + S + S^2 + ...  (finite modulo t^D because S = O(t))
Neumann(S) == LET n == S.shape[1]  D == Dof(S)
                  pw[k \in 0..(D - 1)] == IF k = 0 THEN Ident(n, D) ELSE Dot(pw[k - 1], S)
                  acc[k \in 0..(D - 1)] == IF k = 0 THEN pw[0] ELSE MAdd(acc[k - 1], pw[k])
              IN acc[D - 1]
Cayley(S) == Dot(TLCEval(Neumann(S)), TLCEval(MAdd(Ident(S.shape[1], Dof(S)), S)))
Ortho(Q0rows, S) == TLCEval(Dot(TLCEval(ConstMat(Q0rows, Dof(S))), TLCEval(Cayley(S))))
IsSkew(S) == Transp(S) = MScale(SConst(RInt(-1), Dof(S)), S)
IsOrtho(Q) == Dot(Transp(Q), Q) = Ident(Q.shape[2], Dof(Q))
Cols(A, c0, c1) == Mat(A.shape[1], c1 - c0, LAMBDA i, j : Elt(A, <<i, j + c0>>))
IsUpper(U) == \A i \in 0..(U.shape[1] - 1) : \A j \in 0..(U.shape[2] - 1) : i > j => Elt(U, <<i, j>>) = SZero(Dof(U))
IsLower(L) == IsUpper(Transp(L))
DiagM(lams) == Mat(Len(lams), Len(lams), LAMBDA i, j : IF i = j THEN lams[i + 1] ELSE SZero(Len(lams[1])))
\* lexicographic order on series (the order in which algopy returns eigenvalue series whose zeroth coefficients coincide)
SerLess(x, y) == \E d \in 1..Len(x) : (\A c \in 1..(d - 1) : x[c] = y[c]) /\ RLt(x[d], y[d])
=============================================================================
