------------------------------ MODULE NthDeriv ------------------------------
(* Explicit n-th derivatives: differentiation as a transition relation on closed  *)
(* differential rings.  A state is (family, n, normal form); Next applies d/dx    *)
(* ONCE using only the sum, product and chain rules on the generators of the      *)
(* family, so "order n+1 is the derivative of order n" holds by construction.     *)
(* The closed formulas of the implementation have to simulate this machine.        *)
EXTENDS TPS, TLC, FiniteSets

\* ---- polynomials in x: sequences of rationals, ascending powers, at least one coefficient
PNorm(p) == IF Len(p) = 0 THEN <<RZero>> ELSE p
PAdd(p, q) == LET n == IF Len(p) > Len(q) THEN Len(p) ELSE Len(q)
              IN [k \in 1..n |-> RAdd(IF k <= Len(p) THEN p[k] ELSE RZero, IF k <= Len(q) THEN q[k] ELSE RZero)]
PScale(c, p) == [k \in 1..Len(p) |-> RMul(c, p[k])]
PMul(p, q) == [k \in 1..(Len(p) + Len(q) - 1) |->
                 RSumSeq([i \in 1..Len(p) |-> IF k - i + 1 >= 1 /\ k - i + 1 <= Len(q) THEN RMul(p[i], q[k - i + 1]) ELSE RZero])]
PDeriv(p) == IF Len(p) <= 1 THEN <<RZero>> ELSE [k \in 1..(Len(p) - 1) |-> RMul(RInt(k), p[k + 1])]
PEval(p, x) == LET h[k \in 1..Len(p)] == IF k = Len(p) THEN p[k] ELSE RAdd(p[k], RMul(x, h[k + 1])) IN h[1]
PX == <<RZero, ROne>>

\* ---- families.  nf is the normal form of f^(n), n >= 1 (order 0 is the base function itself)
\*  "exp"    : c * g(x), g' = g                      nf = [c]           (exp, expm1; exp2 with c counted in powers of ln 2: [k] = ln2^k)
\*  "trig"   : a*S + b*C with S' = C, C' = sg*S       nf = [a, b]        (sin, cos: sg = -1; sinh, cosh: sg = +1)
\*  "power"  : c * u^p, u = x + sh                    nf = [c, p]        (log, log1p, sqrt, reciprocal, square, negative; log2/log10 carry 1/ln)
\*  "arc"    : P(x) * w^(-m/2), w = w0 + w2 x^2       nf = [P, m]        (arcsin, arccos, arcsinh, arccosh, arctan, arctanh)
\*  "gauss"  : P(x) * exp(sg x^2)  (times 2/sqrt(pi)) nf = [P]           (erf: sg = -1, erfi: sg = +1)
\*  "shift"  : c * G(k; x) with G(k)' = G(k+1)        nf = [c, k]        (gammaln, psi, polygamma(m))
\*  "hyperu" : c * U(a, b, x), U(a,b)' = -a U(a+1,b+1) nf = [c, a, b]
\*  "zero"   : 0                                       (sign, rint, floor, ... ; absolute and clip after their first derivative)
Fams == {"exp", "exp2", "expm1", "sin", "cos", "sinh", "cosh", "log", "log2", "log10", "log1p", "sqrt", "reciprocal", "square",
         "negative", "arcsin", "arccos", "arcsinh", "arccosh", "arctan", "arctanh", "erf", "erfi", "gammaln", "psi",
         "polygamma", "hyperu", "sign", "absolute", "clip"}

W(f) == CASE f \in {"arcsin", "arccos", "arctanh"} -> <<ROne, RZero, RInt(-1)>>        \* 1 - x^2
          [] f \in {"arcsinh", "arctan"} -> <<ROne, RZero, ROne>>                       \* 1 + x^2
          [] f = "arccosh" -> <<RInt(-1), RZero, ROne>>                                  \* x^2 - 1
Sg(f) == IF f \in {"sin", "cos", "erf"} THEN RInt(-1) ELSE ROne

\* first derivative in normal form (the only place where the base functions' own derivatives enter)
First(f, par) ==
  CASE f = "exp" -> [c |-> ROne]
    [] f = "expm1" -> [c |-> ROne]
    [] f = "exp2" -> [c |-> ROne, k |-> 1]
    [] f = "sin" -> [a |-> RZero, b |-> ROne]           \* cos
    [] f = "cos" -> [a |-> RInt(-1), b |-> RZero]       \* -sin
    [] f = "sinh" -> [a |-> RZero, b |-> ROne]
    [] f = "cosh" -> [a |-> ROne, b |-> RZero]
    [] f \in {"log", "log2", "log10"} -> [c |-> ROne, p |-> RInt(-1)]
    [] f = "log1p" -> [c |-> ROne, p |-> RInt(-1)]
    [] f = "sqrt" -> [c |-> <<1, 2>>, p |-> <<-1, 2>>]
    [] f = "reciprocal" -> [c |-> RInt(-1), p |-> RInt(-2)]
    [] f = "square" -> [c |-> RInt(2), p |-> ROne]
    [] f = "negative" -> [c |-> RInt(-1), p |-> RZero]
    [] f \in {"arcsin", "arcsinh", "arccosh"} -> [P |-> <<ROne>>, m |-> 1]
    [] f = "arccos" -> [P |-> <<RInt(-1)>>, m |-> 1]
    [] f \in {"arctan", "arctanh"} -> [P |-> <<ROne>>, m |-> 2]
    [] f \in {"erf", "erfi"} -> [P |-> <<ROne>>]
    [] f = "gammaln" -> [c |-> ROne, k |-> 0]           \* psi = polygamma(0)
    [] f = "psi" -> [c |-> ROne, k |-> 1]
    [] f = "polygamma" -> [c |-> ROne, k |-> par.m + 1]
    [] f = "hyperu" -> [c |-> RNeg(par.a), a |-> RAdd(par.a, ROne), b |-> RAdd(par.b, ROne)]
    [] f \in {"sign", "absolute", "clip"} -> [z |-> 1]   \* absolute' = sign, clip' = indicator: piecewise constant
\* d/dx applied once to a normal form
Diff(f, nf) ==
  CASE f \in {"exp", "expm1"} -> nf
    [] f = "exp2" -> [nf EXCEPT !.k = @ + 1]
    [] f \in {"sin", "cos", "sinh", "cosh"} -> [a |-> RMul(Sg(f), nf.b), b |-> nf.a]      \* (a S + b C)' = a C + sg b S
    [] f \in {"log", "log2", "log10", "log1p", "sqrt", "reciprocal", "square", "negative"} ->
         [c |-> RMul(nf.c, nf.p), p |-> RSub(nf.p, ROne)]
    [] f \in {"arcsin", "arccos", "arcsinh", "arccosh", "arctan", "arctanh"} ->
         \* (P w^(-m/2))' = (P' w - (m/2) P w') w^(-(m+2)/2)
         [P |-> PAdd(PMul(PDeriv(nf.P), W(f)), PScale(RFrac(-nf.m, 2), PMul(nf.P, PDeriv(W(f))))), m |-> nf.m + 2]
    [] f \in {"erf", "erfi"} -> [P |-> PAdd(PDeriv(nf.P), PScale(RMul(RInt(2), Sg(f)), PMul(PX, nf.P)))]
    [] f \in {"gammaln", "psi", "polygamma"} -> [nf EXCEPT !.k = @ + 1]
    [] f = "hyperu" -> [c |-> RNeg(RMul(nf.c, nf.a)), a |-> RAdd(nf.a, ROne), b |-> RAdd(nf.b, ROne)]
    [] f \in {"sign", "absolute", "clip"} -> [z |-> 0]

\* ---- cross-validation against the TPS algebra at rational points: nf_n(x0)/n! = [t^n] f(x0 + t)
RECURSIVE FactR(_)
FactR(n) == IF n <= 0 THEN 1 ELSE n * FactR(n - 1)
Line(x0, D) == [d \in 1..D |-> IF d = 1 THEN x0 ELSE IF d = 2 THEN ROne ELSE RZero]      \* x0 + t
\* integral of a series with given constant term (dropped: we only compare orders >= 1)
Integ(s) == [d \in 1..(Len(s) + 1) |-> IF d = 1 THEN RZero ELSE RDiv(s[d - 1], RInt(d - 1))]
\* u^(-1/2) along a series whose constant term is a perfect square r^2 (r rational > 0): C(-1/2,k) r^(-1-2k)
FRsqrt(r, D) == [k \in 1..D |-> RMul(GBin(<<-1, 2>>, k - 1), RDiv(ROne, RPowNat(r, 2 * (k - 1) + 1)))]
\* series (orders 0..D-1) of f'(x0 + t), for the families whose derivative is algebraic
DerivSeries(f, x0, r, D) ==
  LET x == Line(x0, D)
      w == SAdd(SConst(W(f)[1], D), SScale(W(f)[3], SMul(x, x)))
  IN CASE f \in {"log"} -> SInv(x)
       [] f = "log1p" -> SInv(SAdd(x, SOne(D)))
       [] f = "reciprocal" -> SNeg(SInv(SMul(x, x)))
       [] f \in {"arctan", "arctanh"} -> SInv(w)
       [] f \in {"arcsin", "arcsinh", "arccosh"} -> SCompose(FRsqrt(r, D), w)     \* w(x0) = r^2
       [] f = "arccos" -> SNeg(SCompose(FRsqrt(r, D), w))
       [] f = "sqrt" -> SScale(<<1, 2>>, SCompose(FRsqrt(r, D), x))                \* x0 = r^2
\* value of a normal form at a rational point (only for the algebraic families)
NfValue(f, nf, x0, r) ==
  CASE f \in {"log", "reciprocal"} -> RMul(nf.c, IF nf.p[1] >= 0 THEN RPowNat(x0, nf.p[1]) ELSE RInv(RPowNat(x0, -nf.p[1])))
    [] f = "log1p" -> RMul(nf.c, RInv(RPowNat(RAdd(x0, ROne), -nf.p[1])))
    [] f = "sqrt" -> RMul(nf.c, RDiv(r, RPowNat(x0, (1 - nf.p[1]) \div 2)))       \* x0^(p), p = 1/2 - n : r * x0^-(n)
    [] f \in {"arctan", "arctanh"} -> RDiv(PEval(nf.P, x0), RPowNat(PEval(W(f), x0), nf.m \div 2))
    [] f \in {"arcsin", "arccos", "arcsinh", "arccosh"} ->
         RDiv(PEval(nf.P, x0), RMul(r, RPowNat(PEval(W(f), x0), (nf.m - 1) \div 2)))     \* w^(m/2) = r * w^((m-1)/2)
=============================================================================
