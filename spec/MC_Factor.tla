------------------------------ MODULE MC_Factor ------------------------------
EXTENDS Factor, TLC, Json
CONSTANTS Dg, Q, Emit,
          ZeroOrd     \* >= 1: the coefficients of that order of all constructed factors are zero (sparse patterns); 0: none
VARIABLES kind, b, q
vars == <<kind, b, q>>

Noise(qq, i, j, d) == IF ZeroOrd >= 1 /\ d = ZeroOrd + 1 THEN 0 ELSE ((qq * (i + 2 * j + 3 * d + 1) + i * j + d) % 5) - 2
NoiseS(qq, i, j) == [d \in 1..Dg |-> RInt(Noise(qq, i, j, d))]
\* ---- rational orthogonal matrices
F(a, bb) == RFrac(a, bb)
Q2 == << << <<ROne, RZero>>, <<RZero, ROne>> >>,
         << <<RZero, ROne>>, <<ROne, RZero>> >>,
         << <<F(3, 5), F(-4, 5)>>, <<F(4, 5), F(3, 5)>> >> >>
Q3 == << << <<ROne, RZero, RZero>>, <<RZero, ROne, RZero>>, <<RZero, RZero, ROne>> >>,
         << <<RZero, RZero, ROne>>, <<ROne, RZero, RZero>>, <<RZero, ROne, RZero>> >>,
         << <<F(1, 3), F(2, 3), F(2, 3)>>, <<F(2, 3), F(1, 3), F(-2, 3)>>, <<F(2, 3), F(-2, 3), F(1, 3)>> >> >>
\* skew-symmetric series with S_0 = 0
Skew(n, qq) == Mat(n, n, LAMBDA i, j : [d \in 1..Dg |-> IF d = 1 \/ i = j THEN RZero
                                                       ELSE IF i < j THEN RInt(Noise(qq, i, j, d)) ELSE RInt(-Noise(qq, j, i, d))])
OrthoOf(n, bi, qq) == Ortho(IF n = 2 THEN Q2[((bi - 1) % 3) + 1] ELSE Q3[((bi - 1) % 3) + 1], Skew(n, qq))
DiagVals == <<2, -3, 1, 4>>
Upper(n, m, qq) == Mat(n, m, LAMBDA i, j : IF i > j THEN SZero(Dg)
                                           ELSE [d \in 1..Dg |-> IF d = 1 /\ i = j THEN RInt(DiagVals[i + 1]) ELSE RInt(Noise(qq + 3, i, j, d))])
LowerPos(n, qq) == Mat(n, n, LAMBDA i, j : IF i < j THEN SZero(Dg)
                                           ELSE [d \in 1..Dg |-> IF d = 1 /\ i = j THEN RInt(i + 1) ELSE RInt(Noise(qq + 1, i, j, d))])
UnitLower(n, qq) == Mat(n, n, LAMBDA i, j : IF i < j THEN SZero(Dg) ELSE IF i = j THEN SOne(Dg)
                                           ELSE [d \in 1..Dg |-> IF d = 1 THEN RFrac(Noise(qq, i, j, 0), 4) ELSE RInt(Noise(qq + 2, i, j, d))])
Perm3 == << <<1, 2, 3>>, <<2, 1, 3>>, <<3, 1, 2>>, <<2, 3, 1>>, <<3, 2, 1>>, <<1, 3, 2>> >>
PermMat(p) == Mat(Len(p), Len(p), LAMBDA i, j : IF p[i + 1] = j + 1 THEN SOne(Dg) ELSE SZero(Dg))
\* eigenvalue series patterns (N = 3 unless stated): zeroth coefficients and the order at which equal ones split
LamCat == << << <<1, 0, 0, 0>>, <<3, 1, 0, 0>>, <<6, -1, 2, 0>> >>,            \* distinct
             << <<2, 1, 0, 0>>, <<2, -1, 0, 0>>, <<5, 0, 1, 0>> >>,            \* a pair splitting at order 1
             << <<2, 1, 1, 0>>, <<2, 1, -1, 0>>, <<5, 0, 0, 1>> >>,            \* a pair splitting at order 2
             << <<2, 1, 0, 0>>, <<2, 1, 0, 0>>, <<5, 2, 0, 0>> >>,             \* a pair that never splits
             << <<2, 1, 0, 0>>, <<2, 0, 0, 0>>, <<2, -1, 0, 0>> >>,            \* a triple splitting at once
             << <<2, 1, 1, 0>>, <<2, 1, -1, 0>>, <<2, -1, 0, 0>> >> >>         \* a triple splitting in two stages
LamSeries(row) == [d \in 1..Dg |-> IF d <= Len(row) THEN RInt(row[d]) ELSE RZero]
SingCat == << << <<3, 1, 0, 0>>, <<1, -1, 1, 0>> >>, << <<4, 0, 1, 0>>, <<2, 1, 0, 0>> >> >>

\* the complex instance of this module (MC_CFactor, Gaussian-rational scalars) generates the complex eigenproblems only
Complex == ~RIsReal(RCx(RZero, ROne))
Kinds == IF Complex THEN {"eig2c", "eig2cc", "eig2ch", "eig2rot"}
         ELSE {"qr2", "qr3", "qr_tall", "qr_wide", "qr_full", "chol2", "chol3", "lu3", "eigh3", "svd32", "eig2"}
NB(k) == CASE k \in {"qr2", "qr3", "qr_tall", "qr_wide", "qr_full", "chol2", "chol3"} -> 3
           [] k = "lu3" -> 6 [] k = "eigh3" -> 6 [] k = "svd32" -> 2 [] k \in {"eig2", "eig2c", "eig2cc", "eig2ch", "eig2rot"} -> 2
Init == kind = "none" /\ b = 0 /\ q = 0
Next == \/ /\ kind = "none" /\ kind' \in Kinds /\ b' \in 1..NB(kind') /\ q' = 0
        \/ /\ kind # "none" /\ q = 0 /\ q' \in 1..Q /\ UNCHANGED <<kind, b>>
Ready == kind # "none" /\ q > 0

\* ---- the instance: [A, factors...]
Inst ==
  CASE kind = "qr2" -> LET Qm == OrthoOf(2, b, q)  Rm == Upper(2, 2, q) IN [A |-> Dot(Qm, Rm), Q |-> Qm, R |-> Rm]
    [] kind = "qr3" -> LET Qm == OrthoOf(3, b, q)  Rm == Upper(3, 3, q) IN [A |-> Dot(Qm, Rm), Q |-> Qm, R |-> Rm]
    [] kind = "qr_tall" -> LET Qm == Cols(OrthoOf(3, b, q), 0, 2)  Rm == Upper(2, 2, q) IN [A |-> Dot(Qm, Rm), Q |-> Qm, R |-> Rm]
    [] kind = "qr_wide" -> LET Qm == OrthoOf(2, b, q)  Rm == Upper(2, 3, q) IN [A |-> Dot(Qm, Rm), Q |-> Qm, R |-> Rm]
    [] kind = "qr_full" -> LET Qf == OrthoOf(3, b, q)  Rm == Upper(2, 2, q)
                               Rf == Mat(3, 2, LAMBDA i, j : IF i < 2 THEN Elt(Rm, <<i, j>>) ELSE SZero(Dg))
                           IN [A |-> Dot(Qf, Rf), Q |-> Qf, R |-> Rf]
    [] kind = "chol2" -> LET L == LowerPos(2, q + b) IN [A |-> Dot(L, Transp(L)), L |-> L]
    [] kind = "chol3" -> LET L == LowerPos(3, q + b) IN [A |-> Dot(L, Transp(L)), L |-> L]
    [] kind = "lu3" -> LET L == UnitLower(3, q)  U == Upper(3, 3, q)  Pm == PermMat(Perm3[b])
                       IN [A |-> Dot(Pm, Dot(L, U)), P |-> Pm, L |-> L, U |-> U]
    [] kind = "eigh3" -> LET Qm == OrthoOf(3, b + q, q)  lam == [i \in 1..3 |-> LamSeries(LamCat[b][i])]
                         IN [A |-> Dot(Qm, Dot(DiagM(lam), Transp(Qm))), Q |-> Qm, lam |-> [shape |-> <<3>>, v |-> lam]]
    [] kind = "svd32" -> LET U == OrthoOf(3, b + q, q)  V == OrthoOf(2, q, q + 1)
                             s == [i \in 1..2 |-> LamSeries(SingCat[b][i])]
                             Sm == Mat(3, 2, LAMBDA i, j : IF i = j THEN s[i + 1] ELSE SZero(Dg))
                         IN [A |-> Dot(U, Dot(Sm, Transp(V))), U |-> U, V |-> V, s |-> [shape |-> <<2>>, v |-> s]]
    [] kind = "eig2" -> LET X == Mat(2, 2, LAMBDA i, j : [d \in 1..Dg |-> IF d = 1 THEN RInt(IF i = j \/ (i = 0 /\ b = 1) \/ (i = 1 /\ b = 2) THEN 1 ELSE 0)
                                                                          ELSE RInt(Noise(q, i, j, d))])
                            lam == << LamSeries(<<1, 1, 0, 0>>), LamSeries(<<3, -1, 0, 0>>) >>
                        IN [A |-> Dot(X, Dot(DiagM(lam), Inv(X))), X |-> X, lam |-> [shape |-> <<2>>, v |-> lam]]

    \* complex eigenproblems: "eig2c" a real base matrix with a real spectrum and COMPLEX higher coefficients,
    \*                        "eig2cc" a complex spectrum already at order 0
    [] kind \in {"eig2c", "eig2cc"} ->
         LET X == Mat(2, 2, LAMBDA i, j : [d \in 1..Dg |-> IF d = 1 THEN RInt(IF i = j \/ (i = 0 /\ b = 1) \/ (i = 1 /\ b = 2) THEN 1 ELSE 0)
                                                         ELSE RCx(RInt(Noise(q, i, j, d)), RInt(Noise(q + 1, j, i, d + 1)))])
             l1 == [d \in 1..Dg |-> IF d = 1 THEN (IF kind = "eig2c" THEN RInt(1) ELSE RCx(RInt(1), RInt(1)))
                                    ELSE IF d = 2 THEN RCx(RInt(1), RInt(q)) ELSE RZero]
             l2 == [d \in 1..Dg |-> IF d = 1 THEN (IF kind = "eig2c" THEN RInt(3) ELSE RCx(RInt(3), RInt(-1)))
                                    ELSE IF d = 2 THEN RCx(RInt(-1), RInt(2)) ELSE RZero]
             lam == <<l1, l2>>
         IN [A |-> Dot(X, Dot(DiagM(lam), Inv(X))), X |-> X, lam |-> [shape |-> <<2>>, v |-> lam]]
    \*                        "eig2ch" a REAL spectrum at every order with truly complex eigenvectors (e.g. a complex Hermitian matrix)
    [] kind = "eig2ch" ->
         LET X == Mat(2, 2, LAMBDA i, j : [d \in 1..Dg |-> IF d = 1 THEN (IF i = j THEN ROne ELSE RCx(RZero, RInt(IF i = 0 THEN 1 ELSE b)))
                                                         ELSE RCx(RInt(Noise(q, i, j, d)), RInt(Noise(q + 1, j, i, d + 1)))])
             lam == << LamSeries(<<1, 1, 0, 0>>), LamSeries(<<3, -1, 0, 0>>) >>
         IN [A |-> Dot(X, Dot(DiagM(lam), Inv(X))), X |-> X, lam |-> [shape |-> <<2>>, v |-> lam]]
    \*                        "eig2rot" a REAL matrix series [[a, c], [-c, a]] whose spectrum is the conjugate pair a(t) +- i c(t)
    [] kind = "eig2rot" ->
         LET a == [d \in 1..Dg |-> IF d = 1 THEN RInt(b) ELSE RInt(Noise(q, 0, 0, d))]
             c == [d \in 1..Dg |-> IF d = 1 THEN RInt(b + 1) ELSE RInt(Noise(q + 1, 0, 1, d))]
             ii == SConst(RCx(RZero, ROne), Dg)
             X == Mat(2, 2, LAMBDA i, j : IF i = 0 THEN SOne(Dg) ELSE IF j = 0 THEN ii ELSE SNeg(ii))
             lam == << SAdd(a, SMul(ii, c)), SSub(a, SMul(ii, c)) >>
         IN [A |-> Mat(2, 2, LAMBDA i, j : IF i = j THEN a ELSE IF i = 0 THEN c ELSE SNeg(c)), X |-> X, lam |-> [shape |-> <<2>>, v |-> lam]]
\* ---- M: the generators produce what they claim (exact identities mod t^D)
GenOK == Ready => LET I == TLCEval(Inst) IN
  CASE kind \in {"qr2", "qr3", "qr_wide"} -> IsOrtho(I.Q) /\ IsUpper(I.R)
    [] kind \in {"qr_tall"} -> IsOrtho(I.Q) /\ IsUpper(I.R)          \* Q^T Q = I (2x2)
    [] kind = "qr_full" -> IsOrtho(I.Q) /\ IsUpper(I.R)
    [] kind \in {"chol2", "chol3"} -> IsLower(I.L) /\ Transp(I.A) = I.A
    [] kind = "lu3" -> IsLower(I.L) /\ IsUpper(I.U) /\ Dot(I.P, Transp(I.P)) = Ident(3, Dg)
    [] kind = "eigh3" -> IsOrtho(I.Q) /\ Transp(I.A) = I.A /\ Dot(I.A, I.Q) = Dot(I.Q, DiagM(I.lam.v))
    [] kind = "svd32" -> IsOrtho(I.U) /\ IsOrtho(I.V)
    [] kind = "eig2" -> Dot(I.A, I.X) = Dot(I.X, DiagM(I.lam.v))
    [] kind = "eig2rot" -> /\ Dot(I.A, I.X) = Dot(I.X, DiagM(I.lam.v))
                           /\ \A k \in 1..4 : \A d \in 1..Dg : RIsReal(I.A.v[k][d])                    \* a real matrix at every order
                           /\ ~RIsReal(I.lam.v[1][1])                                                   \* with a non-real spectrum
    [] kind = "eig2ch" -> /\ Dot(I.A, I.X) = Dot(I.X, DiagM(I.lam.v))
                          /\ \A k \in 1..2 : \A d \in 1..Dg : RIsReal(I.lam.v[k][d])                     \* real spectrum at every order
                          /\ \E k \in 1..4 : ~RIsReal(I.X.v[k][1])                                      \* complex eigenvectors at order 0
    [] kind \in {"eig2c", "eig2cc"} -> /\ Dot(I.A, I.X) = Dot(I.X, DiagM(I.lam.v))
                                       /\ (kind = "eig2c") = (\A k \in 1..4 : RIsReal(I.A.v[k][1]))       \* real base matrix iff "eig2c"
                                       /\ \E k \in 1..4 : ~RIsReal(I.A.v[k][2])                          \* complex first-order coefficient
SkewOK == Ready => IsSkew(Skew(3, q)) /\ IsSkew(Skew(2, q))
EmitState == (Emit /\ Ready) => PrintT(ToJson([kind |-> kind, b |-> b, q |-> q, inst |-> Inst]))
=============================================================================
