\* GENERATED from MC_UTPM.tla by tools/gen_complex.py - do not edit
------------------------------ MODULE MC_CUTPM ------------------------------
(* Bounded instances of UTPMachine: M (exhaustive, design invariants) and the   *)
(* R generator (every state prints its behaviour and the projected heap).       *)
EXTENDS CUTPMachine, Json

CONSTANT Emit

\* ---- pools
PoolVec2   == << [k |-> "U", es |-> <<2>>], [k |-> "U", es |-> <<2>>], [k |-> "A", es |-> <<2>>] >>
PoolBcast  == << [k |-> "U", es |-> <<2>>], [k |-> "U", es |-> <<2, 1>>], [k |-> "A", es |-> <<2, 2>>] >>
PoolBcastP == << [k |-> "U", es |-> <<2>>], [k |-> "U", es |-> <<>>], [k |-> "A", es |-> <<Pg, 2>>], [k |-> "A", es |-> <<3, 1, 2>>] >>
PoolMat    == << [k |-> "U", es |-> <<2, 3>>], [k |-> "U", es |-> <<3>>], [k |-> "A", es |-> <<3>>] >>
PoolMat22  == << [k |-> "U", es |-> <<2, 2>>], [k |-> "U", es |-> <<2>>], [k |-> "A", es |-> <<2>>] >>
PoolScal   == << [k |-> "U", es |-> <<>>], [k |-> "U", es |-> <<3>>], [k |-> "A", es |-> <<>>] >>
Pool3D     == << [k |-> "U", es |-> <<2, 1, 2>>], [k |-> "U", es |-> <<2>>] >>
PoolRect   == << [k |-> "U", es |-> <<2, 4>>], [k |-> "U", es |-> <<4, 2>>], [k |-> "U", es |-> <<3, 1>>] >>      \* wide / tall (rows >= columns + 2)
PoolVec4   == << [k |-> "U", es |-> <<4>>], [k |-> "U", es |-> <<2>>], [k |-> "A", es |-> <<2>>] >>

\* ---- pools with complex members (only meaningful in the complex instance MC_CUTPM)
PoolCx1 == << [k |-> "U", es |-> <<2>>], [k |-> "U", es |-> <<2>>, dt |-> "c"], [k |-> "A", es |-> <<2>>, dt |-> "c"], [k |-> "A", es |-> <<2>>] >>
PoolCx2 == << [k |-> "U", es |-> <<2, 1>>, dt |-> "c"], [k |-> "U", es |-> <<2>>], [k |-> "A", es |-> <<Pg, 2>>, dt |-> "c"] >>
\* ---- index catalogues (element axes)
S(lo, hi, st) == <<"s", lo, hi, st>>
I(n) == <<"i", n>>
IdxVec == { <<I(0)>>, <<I(-1)>>, <<S(None, None, 1)>>, <<S(1, None, 1)>>, <<S(None, -1, 1)>>,
            <<S(None, None, -1)>>, <<S(None, None, 2)>>, <<S(-1, None, -2)>>, <<S(1, 0, 1)>>,
            << <<"e">> >>, << <<"n">> >>, << <<"e">>, <<"n">> >>, <<S(0, 1, 1)>> }
IdxMat == IdxVec \cup { <<I(0), I(1)>>, <<I(-1), S(None, None, 1)>>, <<S(None, None, 1), I(0)>>,
            <<S(None, None, -1), S(1, None, 1)>>, << <<"e">>, I(-1)>>, <<I(1), <<"e">> >>,
            << <<"n">>, S(None, None, 1)>>, <<S(None, None, 1), <<"n">> >>, <<S(None, None, 2), S(None, None, -2)>>,
            <<I(0), <<"n">>, I(0)>> }
IdxSmall == { <<I(0)>>, <<I(-1)>>, <<S(None, None, -1)>>, <<S(1, None, 1)>>, << <<"e">> >> }
IdxNone == {}

ScalSet == { RFrac(2, 1), RFrac(-1, 2) }
ScalOne == { RFrac(2, 1) }
ScalCx == { RFrac(2, 1), RCx(RFrac(1, 2), RFrac(-3, 2)) }
NoScal == {}
CmpSet == { RFrac(1, 1), RFrac(3, 1), RFrac(-2, 1), RFrac(1, 2), RFrac(5, 1), RFrac(6, 1) }
ActsCmp == {"cmp", "bin", "getitem", "unary"}
RsCat == { <<4>>, <<2, 2>>, <<6>>, <<3, 2>>, <<1, 2>>, <<2, 1>>, <<2, 3>> }
NoRs == {}
Tiles == { <<2>>, <<2, 1>>, <<1, 2>>, <<2, 2>>, <<2, 1, 2>> }
NoTiles == {}
ActsCplx == {"conjugate", "real", "imag", "fft", "ifft", "bin", "getitem"}
PoolCx3 == << [k |-> "U", es |-> <<2, 2>>, dt |-> "c"], [k |-> "U", es |-> <<4>>], [k |-> "U", es |-> <<1>>, dt |-> "c"] >>
ActsMore == {"tile", "diag", "triu", "tril", "trace", "zeros", "ones", "getitem"}

ActsArith == {"bin", "bina", "bins", "ibin", "ibina", "ibins", "powi", "unary"}
ActsBin == {"bin", "bina", "bins"}
ActsShape == {"getitem", "setitem", "setitema", "setitems", "transpose", "reshape", "sum", "unary"}
ActsAlias == {"getitem", "transpose", "bin", "ibin", "setitem"}
ActsAliasS == {"getitem", "transpose", "ibins", "ibina"}      \* in-place operators with a scalar / array on views: the parent must change
ActsGet == {"getitem"}
ActsAll == ActsArith \cup ActsShape

Proj(o) == [k |-> o.k, buf |-> o.buf, shape |-> o.shape, cells |-> o.cells, real |-> RealObj(heap, o), ct |-> o.ct,
            vals |-> [c \in 1..Len(o.cells) |-> heap[o.buf][o.cells[c]]]]
EmitState == Emit => PrintT(ToJson([h |-> hist, o |-> [i \in 1..Len(objs) |-> Proj(objs[i])]]))
Spec == Init /\ [][Next]_vars
=============================================================================
