\* GENERATED from TPS.tla by tools/gen_complex.py - do not edit
------------------------------- MODULE CTPS -------------------------------
(* Truncated power series Q[t]/(t^D): sequences of D rationals, s[1] = order 0.    *)
(* Every operation is defined by its *defining identity*, not by the recurrence     *)
(* an implementation would use.                                                     *)
EXTENDS CRat

SZero(D)     == [d \in 1..D |-> RZero]
SConst(c, D) == [d \in 1..D |-> IF d = 1 THEN c ELSE RZero]
SOne(D)      == SConst(ROne, D)
SAdd(x, y)   == [d \in 1..Len(x) |-> RAdd(x[d], y[d])]
SSub(x, y)   == [d \in 1..Len(x) |-> RSub(x[d], y[d])]
SNeg(x)      == [d \in 1..Len(x) |-> RNeg(x[d])]
SScale(c, x) == [d \in 1..Len(x) |-> RMul(c, x[d])]
\* Cauchy product
SMul(x, y)   == [d \in 1..Len(x) |-> RSumSeq([c \in 1..d |-> RMul(x[c], y[d - c + 1])])]
\* the unique z with z * y = x (y[1] # 0), constructed order by order from that identity
SDiv(x, y)   ==
  LET z[d \in 1..Len(x)] ==
        RDiv(RSub(x[d], RSumSeq([c \in 1..(d - 1) |-> RMul(z[c], y[d - c + 1])])), y[1])
  IN  [d \in 1..Len(x) |-> z[d]]
SInv(y)      == SDiv(SOne(Len(y)), y)

RECURSIVE SPowNat(_, _)
SPowNat(x, n) == IF n = 0 THEN SOne(Len(x)) ELSE SMul(x, SPowNat(x, n - 1))
SPowInt(x, n) == IF n >= 0 THEN SPowNat(x, n) ELSE SInv(SPowNat(x, -n))

STrunc(x, Dp) == [d \in 1..Dp |-> x[d]]
\* formal derivative / integral with respect to t  (length D-1 / D)
SDeriv(x)     == [d \in 1..(Len(x) - 1) |-> RMul(RInt(d), x[d + 1])]
\* x - x_0
SShift0(x)    == [d \in 1..Len(x) |-> IF d = 1 THEN RZero ELSE x[d]]

\* Composition with an analytic f given by its Taylor coefficients F[k+1] = f^(k)(x_0)/k! :
\*   f(x(t)) = sum_k F_k (x(t) - x_0)^k     (finite mod t^D because (x - x_0)^k = O(t^k))
SCompose(F, x) ==
  LET D == Len(x)
      h == SShift0(x)
      acc[k \in 0..(D - 1)] == IF k = 0 THEN SConst(F[1], D)
                               ELSE SAdd(acc[k - 1], SScale(F[k + 1], SPowNat(h, k)))
  IN  acc[D - 1]
\* C[d+1][k+1] = [t^d] (x - x_0)^k : all the combinatorics of Faa di Bruno; f(x)_d = sum_k C[d][k] F_k
CMatrix(x) ==
  LET D == Len(x)
      h == SShift0(x)
      pw[k \in 0..(D - 1)] == IF k = 0 THEN SOne(D) ELSE SMul(h, pw[k - 1])
  IN  [d \in 1..D |-> [k \in 1..D |-> pw[k - 1][d]]]
\* coefficients of f' from those of f (one fewer is known: the last is padded with 0 and never used
\* below order D-1)
FDeriv(F) == [k \in 1..Len(F) |-> IF k < Len(F) THEN RMul(RInt(k), F[k + 1]) ELSE RZero]

\* --- closed-form coefficient vectors with rational values
\* 1/x at x0 : F_k = (-1)^k / x0^(k+1)
FRecip(x0, D) == [k \in 1..D |-> RDiv(RInt(IF (k - 1) % 2 = 0 THEN 1 ELSE -1), RPowNat(x0, k))]
\* x^n, n natural: binomial coefficients
RECURSIVE BinomN(_, _)
BinomN(n, k) == IF k = 0 THEN 1 ELSE IF k > n THEN 0 ELSE (BinomN(n - 1, k - 1) * n) \div k
FPowNat(n, x0, D) == [k \in 1..D |-> IF k - 1 > n THEN RZero
                                     ELSE RMul(RInt(BinomN(n, k - 1)), RPowNat(x0, n - (k - 1)))]
\* log x at x0 (higher coefficients only; F_0 = log x0 is transcendental): (-1)^(k-1) / (k x0^k)
FLogHigher(x0, D) == [k \in 1..D |-> IF k = 1 THEN RZero
                                     ELSE RDiv(RInt(IF k % 2 = 0 THEN 1 ELSE -1), RMul(RInt(k - 1), RPowNat(x0, k - 1)))]
\* sqrt x at a perfect square x0 = r^2 : F_k = C(1/2, k) r^(1-2k)
RECURSIVE GBin(_, _)
GBin(z, m) == IF m = 0 THEN ROne ELSE RMul(GBin(z, m - 1), RDiv(RSub(z, RInt(m - 1)), RInt(m)))
FSqrt(r, D) == [k \in 1..D |-> RMul(GBin(<<1, 2>>, k - 1),
                                    IF k = 1 THEN r ELSE RDiv(ROne, RPowNat(r, 2 * (k - 1) - 1)))]
=============================================================================
