------------------------------ MODULE MC_TPS ------------------------------
(* M: the algebra every recurrence of the implementation is derived from.        *)
(* R: emits, per coefficient pattern, the C-matrix and exact results of +,-,*,/   *)
EXTENDS TPS, TLC, Json, FiniteSets
CONSTANTS D, Vals, Emit, MaxPow

V5 == -2..2
V3 == -1..1
V4 == {-2,-1,1,2}
V7 == -3..3
VARIABLES x, y, phase
vars == <<x, y, phase>>

RV == {RInt(v) : v \in Vals}
Init == /\ x \in [1..D -> RV] /\ y = x /\ phase = "one"
Pair == /\ phase = "one" /\ \E yy \in [1..D -> RV] : (yy[1] # RZero /\ y' = yy)
        /\ phase' = "two" /\ UNCHANGED x
Next == Pair

Two == phase = "two"
\* ---- commutative ring with 1
RingLaws == Two =>
  /\ SMul(x, y) = SMul(y, x)
  /\ SAdd(x, y) = SAdd(y, x)
  /\ SMul(x, SOne(D)) = x
  /\ SMul(x, SAdd(y, x)) = SAdd(SMul(x, y), SMul(x, x))
  /\ SMul(SMul(x, y), y) = SMul(x, SMul(y, y))
  /\ SSub(x, y) = SAdd(x, SNeg(y))
\* ---- division is the inverse of multiplication
DivLaw == Two => /\ SMul(SDiv(x, y), y) = x
                 /\ SDiv(SMul(x, y), y) = x
                 /\ SDiv(x, y) = SMul(x, SInv(y))
\* ---- constants embed as a ring homomorphism (degree-0 polynomials)
ConstLaw == Two => /\ SMul(x, SConst(y[1], D)) = SScale(y[1], x)
                   /\ SDiv(x, SConst(y[1], D)) = SScale(RInv(y[1]), x)
\* ---- powers
PowLaw == Two => \A n \in 0..MaxPow : \A m \in 0..MaxPow :
                   /\ SPowNat(y, n + m) = SMul(SPowNat(y, n), SPowNat(y, m))
                   /\ SMul(SPowInt(y, -n), SPowNat(y, n)) = SOne(D)
\* ---- Horner: composition with polynomial coefficients = evaluating the polynomial with ring operations
\*      q(z) = F1 + F2 (z - x0) + ... with F := y (any coefficients): Compose(y, x) = sum y_k (x-x0)^k by def;
\*      check against Horner evaluation in h = x - x0
Horner == Two =>
  LET h == SShift0(x)
      hr[k \in 1..D] == IF k = D THEN SConst(y[D], D) ELSE SAdd(SConst(y[k], D), SMul(h, hr[k + 1]))
  IN SCompose(y, x) = hr[1]
\* ---- ODE theorem  d/dt f(x(t)) = f'(x(t)) x'(t)   (mod t^(D-1)), F := y arbitrary
ODE == (Two /\ D >= 2) =>
  SDeriv(SCompose(y, x)) = STrunc(SMul(SCompose(FDeriv(y), x),
                                       [d \in 1..D |-> IF d < D THEN SDeriv(x)[d] ELSE RZero]), D - 1)
\* ---- C-matrix: f(x)_d = sum_k C[d][k] F_k, integer entries for integer x
CMat == Two =>
  LET C == CMatrix(x) IN
    /\ \A d \in 1..D : SCompose(y, x)[d] = RSumSeq([k \in 1..D |-> RMul(C[d][k], y[k])])
    /\ \A d \in 1..D : \A k \in 1..D : RIsInt(C[d][k]) /\ (k > d => C[d][k] = RZero)
\* ---- truncation: low orders do not depend on D (C12)
TruncLaw == Two => \A Dp \in 1..(D - 1) :
  /\ STrunc(SMul(x, y), Dp) = SMul(STrunc(x, Dp), STrunc(y, Dp))
  /\ STrunc(SDiv(x, y), Dp) = SDiv(STrunc(x, Dp), STrunc(y, Dp))
  /\ STrunc(SCompose(y, x), Dp) = SCompose(STrunc(y, Dp), STrunc(x, Dp))
  /\ \A d \in 1..Dp : \A k \in 1..Dp : CMatrix(STrunc(x, Dp))[d][k] = CMatrix(x)[d][k]
\* ---- closed forms agree with the algebra
ClosedForms == Two =>
  /\ SCompose(FRecip(y[1], D), y) = SInv(y)
  /\ \A n \in 0..MaxPow : SCompose(FPowNat(n, y[1], D), y) = SPowNat(y, n)
  /\ (D >= 2 => SDeriv(SCompose(FLogHigher(y[1], D), y)) = STrunc(SDiv([d \in 1..D |-> IF d < D THEN SDeriv(y)[d] ELSE RZero], y), D - 1))
  /\ (RLt(RZero, y[1]) =>
        LET ysq == SMul(y, y) IN SCompose(FSqrt(y[1], D), ysq) = y)
\* ---- adjoint identity: <zbar, d(x*y)[v]> = <xbar, v> with xbar = zbar * y  (same algebra, coefficientwise pairing
\*      sum_d over the truncated product's order D-1 coefficient)
AdjMul == Two =>
  LET zbar == y
      v == x
      lhs == SMul(zbar, SMul(v, y))       \* zbar * (v*y)
      rhs == SMul(SMul(zbar, y), v)
  IN lhs = rhs

\* R: per pattern, the exact results
EmitOne == (Emit /\ phase = "one") => PrintT(ToJson([k |-> "cmat", x |-> x, C |-> CMatrix(x)]))
=============================================================================
