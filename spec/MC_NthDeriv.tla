---------------------------- MODULE MC_NthDeriv ----------------------------
EXTENDS NthDeriv, Json
CONSTANTS MaxN, MaxNCross, Emit

VARIABLES f, n, nf, par
vars == <<f, n, nf, par>>

NoPar == [m |-> 0, a |-> RZero, b |-> RZero]
Pars(ff) == IF ff = "polygamma" THEN {[m |-> 1, a |-> RZero, b |-> RZero], [m |-> 2, a |-> RZero, b |-> RZero], [m |-> 3, a |-> RZero, b |-> RZero]}
            ELSE IF ff = "hyperu" THEN {[m |-> 0, a |-> ROne, b |-> <<3, 2>>], [m |-> 0, a |-> <<1, 2>>, b |-> <<9, 4>>],
                                        [m |-> 0, a |-> <<-1, 2>>, b |-> <<5, 4>>], [m |-> 0, a |-> <<-3, 2>>, b |-> ROne]}
            ELSE {NoPar}
Init == /\ f \in Fams /\ par \in Pars(f) /\ n = 1 /\ nf = First(f, par)
Next == /\ n < MaxN /\ n' = n + 1 /\ nf' = Diff(f, nf) /\ UNCHANGED <<f, par>>

\* rational points (x0, r) with w(x0) = r^2 resp. x0 = r^2
CrossPts(ff) ==
  CASE ff \in {"log", "reciprocal"} -> {<<RInt(2), ROne>>, <<<<1, 2>>, ROne>>, <<RInt(-3), ROne>>} \ (IF ff = "log" THEN {<<RInt(-3), ROne>>} ELSE {})
    [] ff = "log1p" -> {<<ROne, ROne>>, <<<<-1, 2>>, ROne>>}
    [] ff = "sqrt" -> {<<RInt(4), RInt(2)>>, <<<<1, 4>>, <<1, 2>>>>}
    [] ff \in {"arctan"} -> {<<RInt(2), ROne>>, <<<<-1, 2>>, ROne>>, <<RZero, ROne>>}
    [] ff = "arctanh" -> {<<<<1, 2>>, ROne>>, <<<<-1, 3>>, ROne>>}
    [] ff \in {"arcsin", "arccos"} -> {<<<<3, 5>>, <<4, 5>>>>, <<<<-4, 5>>, <<3, 5>>>>, <<RZero, ROne>>}
    [] ff = "arcsinh" -> {<<<<3, 4>>, <<5, 4>>>>, <<<<-4, 3>>, <<5, 3>>>>}
    [] ff = "arccosh" -> {<<<<5, 4>>, <<3, 4>>>>, <<<<5, 3>>, <<4, 3>>>>}
    [] OTHER -> {}
\* nf_n(x0)/n! = [t^n] f(x0+t) = (1/n) [t^(n-1)] f'(x0+t), f' expanded in the TPS algebra
CrossCheck == n <= MaxNCross =>
  \A pt \in CrossPts(f) :
     RDiv(NfValue(f, nf, pt[1], pt[2]), RInt(FactR(n))) = RDiv(DerivSeries(f, pt[1], pt[2], n)[n], RInt(n))
\* structural invariants of the normal forms
Structure ==
  /\ f \in {"sin", "cos"} => (n % 4 = 0 => nf = [a |-> IF f = "sin" THEN ROne ELSE RZero, b |-> IF f = "sin" THEN RZero ELSE ROne])
  /\ f \in {"sinh", "cosh"} => (n % 2 = 0 => nf = [a |-> IF f = "sinh" THEN ROne ELSE RZero, b |-> IF f = "sinh" THEN RZero ELSE ROne])
  /\ f = "square" => (n >= 3 => nf.c = RZero)
  /\ f = "negative" => (n >= 2 => nf.c = RZero)
  /\ f \in {"erf", "erfi"} => Len(nf.P) = n
  /\ f \in {"arcsin", "arccos", "arcsinh", "arccosh"} => nf.m = 2 * n - 1
  /\ f \in {"arctan", "arctanh"} => nf.m = 2 * n
EmitState == Emit => PrintT(ToJson([f |-> f, n |-> n, nf |-> nf, par |-> par]))
=============================================================================
