------------------------------- MODULE Tracer -------------------------------
(* The tracer of algopy as a transition system: recording of a straight-line       *)
(* program over one input vector (Function nodes appended to the graph while        *)
(* recording is on), re-evaluation from new inputs (CGraph.pushforward), the         *)
(* reverse sweep (CGraph.pullback: adjoint buffers that mirror value views, in-place *)
(* writes with saved contents that are restored during the sweep and redone after    *)
(* it) and the derivative drivers.  One action per linearisation point of            *)
(* tracer.py.  Values are exact: a heap cell holds, per direction, the Taylor        *)
(* series of the value AND of its derivative with respect to every input cell        *)
(* (forward-mode reference carried along), so that "J^T ybar" is known exactly.      *)
EXTENDS Integers, Sequences, FiniteSets, TLC, TPS

CONSTANTS N,             \* number of cells of each input vector
          NI,            \* number of independent input vectors (1 or 2): the second one is wrapped after an operation has been recorded
          P,             \* number of directions
          MaxInstr,      \* bound on recorded instructions after the fixed prefix (in, zeros)
          MaxHist,       \* bound on the number of calls after recording
          Points,        \* catalogue of evaluation points: [D |-> D, x |-> Seq over p of Seq over N of series]
          Seeds,         \* catalogue of adjoint seeds: Seq over p of series (scalar dependent) / used cellwise for arrays
          Ops,           \* enabled instruction kinds
          RefreshStore,  \* TRUE: a re-evaluated in-place write saves the contents it overwrites (repaired tree)
          RollForward,   \* TRUE: the reverse sweep redoes the in-place writes when it is done (repaired tree)
          SetPbViaTemp,  \* TRUE: pullback of item assignment reads ybar[sl] into a temporary first (repaired tree)
          FreshBars,     \* TRUE: every reverse sweep allocates new adjoint buffers (the code); FALSE: a sweep with the same
                         \*       degree and direction count clears and reuses the buffers of the previous one
          Prefix,        \* "plain" | "buffered" | "two" | "overwritten": the fixed beginning of every program
          DrvX, DrvV, DrvW,   \* catalogues of driver arguments (vectors of rationals)
          MaxAbs

VARIABLES prog,     \* Seq of instructions = all Function nodes in creation order
          recd,     \* Seq of BOOLEAN: was node k appended to the graph (recording on)?
          tracing,  \* Function.cgraph is this graph
          val,      \* per node: object [buf, cells, arr] ; NoneV for item assignments
          saved,    \* per node: <<>> or <<cell index, saved content>>      (Function.setitem)
          heap,     \* Seq of buffers; a buffer is a Seq of cells; a cell is Seq over p of [v, dv]
          phase,    \* "rec" | "idle"
          cur,      \* the inputs of the last forward evaluation: [kind, D, pt]  (kind "U" UTPM / "A" ndarray)
          hist,     \* the calls made so far (behaviour, for replay)
          ret,      \* result of the last call
          bars,     \* adjoint state left by the last reverse sweep (observable as node.xbar)
          xbuf,     \* the adjoint buffers of the independents allocated so far: Seq of [D |-> degree, v |-> contents]
          handed    \* results handed to the caller that live in such a buffer (x.xbar, driver results): Seq of [g |-> buffer, v |-> value]
vars == <<prog, recd, tracing, val, saved, heap, phase, cur, hist, ret, bars, xbuf, handed>>

NoneV == [buf |-> 0, cells |-> <<>>, arr |-> FALSE]
NoRet == [k |-> "none"]

\* ------------------------------------------------------------------ cells
NT == N * NI          \* number of input cells = number of derivative slots carried by every cell
Dc == cur.D
ZeroS(D) == SZero(D)
CZero(D) == [p \in 1..P |-> [v |-> SZero(D), dv |-> [j \in 1..NT |-> SZero(D)]]]
CConst(c, D) == [p \in 1..P |-> [v |-> SConst(c, D), dv |-> [j \in 1..NT |-> SZero(D)]]]
CIn(pt, j, D) == [p \in 1..P |-> [v |-> pt[p][j], dv |-> [jj \in 1..NT |-> IF jj = j THEN SOne(D) ELSE SZero(D)]]]      \* j: input slot 1..NT
CAdd(x, y) == [p \in 1..P |-> [v |-> SAdd(x[p].v, y[p].v), dv |-> [j \in 1..NT |-> SAdd(x[p].dv[j], y[p].dv[j])]]]
CSub(x, y) == [p \in 1..P |-> [v |-> SSub(x[p].v, y[p].v), dv |-> [j \in 1..NT |-> SSub(x[p].dv[j], y[p].dv[j])]]]
CNeg(x)    == [p \in 1..P |-> [v |-> SNeg(x[p].v), dv |-> [j \in 1..NT |-> SNeg(x[p].dv[j])]]]
CMul(x, y) == [p \in 1..P |-> [v |-> SMul(x[p].v, y[p].v),
                               dv |-> [j \in 1..NT |-> SAdd(SMul(x[p].dv[j], y[p].v), SMul(x[p].v, y[p].dv[j]))]]]
CDiv(x, y) == [p \in 1..P |-> LET z == TLCEval(SDiv(x[p].v, y[p].v)) IN
                              [v |-> z, dv |-> [j \in 1..NT |-> SDiv(SSub(x[p].dv[j], SMul(z, y[p].dv[j])), y[p].v)]]]
CPow(x, n) == [p \in 1..P |-> [v |-> SPowInt(x[p].v, n),
                               dv |-> [j \in 1..NT |-> IF n = 0 THEN SZero(Len(x[p].v))
                                        ELSE SMul(SScale(RInt(n), SPowInt(x[p].v, n - 1)), x[p].dv[j])]]]
CNonZero(x) == \A p \in 1..P : x[p].v[1] # RZero
COp(op, x, y) == CASE op = "add" -> CAdd(x, y) [] op = "sub" -> CSub(x, y) [] op = "mul" -> CMul(x, y) [] op = "div" -> CDiv(x, y)

Read(h, o) == [i \in 1..Len(o.cells) |-> h[o.buf][o.cells[i]]]
Alloc(h, contents) == Append(h, contents)
WriteCell(h, b, c, x) == [h EXCEPT ![b][c] = x]
Fresh(h, contents, isarr) == [h |-> Alloc(h, contents), o |-> [buf |-> Len(h) + 1, cells |-> [i \in 1..Len(contents) |-> i], arr |-> isarr]]

PowN(ins) == IF ins.op = "sq" THEN 2 ELSE IF ins.op = "recip" THEN -1 ELSE ins.n
\* ------------------------------------------------------------------ one forward step of instruction ins
\* v: node values so far, kind: "U" (views) or "A" (integer indexing of a plain array returns a copy)
\* returns [h, o, sv, ok]; ok = FALSE when the instruction is not defined at these values (division by a zero base)
Step(h, v, ins, pt, D, kind, oldsaved, refresh) ==
  CASE ins.op = "in" ->
         LET r == Fresh(h, [j \in 1..N |-> CIn(pt, j, D)], TRUE) IN [h |-> r.h, o |-> r.o, sv |-> <<>>, ok |-> TRUE]
    [] ins.op = "in2" ->      \* the second independent vector: input slots N+1 .. 2N
         LET r == Fresh(h, [j \in 1..N |-> CIn(pt, N + j, D)], TRUE) IN [h |-> r.h, o |-> r.o, sv |-> <<>>, ok |-> TRUE]
    [] ins.op = "const" ->
         LET r == Fresh(h, <<CConst(ins.c, D)>>, FALSE) IN [h |-> r.h, o |-> r.o, sv |-> <<>>, ok |-> TRUE]
    [] ins.op = "zeros" ->
         LET r == Fresh(h, [j \in 1..N |-> CZero(D)], TRUE) IN [h |-> r.h, o |-> r.o, sv |-> <<>>, ok |-> TRUE]
    [] ins.op = "get" ->
         IF kind = "U"
         THEN [h |-> h, o |-> [buf |-> v[ins.a].buf, cells |-> <<v[ins.a].cells[ins.i]>>, arr |-> FALSE], sv |-> <<>>, ok |-> TRUE]
         ELSE LET r == Fresh(h, <<h[v[ins.a].buf][v[ins.a].cells[ins.i]]>>, FALSE) IN [h |-> r.h, o |-> r.o, sv |-> <<>>, ok |-> TRUE]
    [] ins.op = "rev" ->      \* a[::-1] : a view in both kinds
         [h |-> h, o |-> [buf |-> v[ins.a].buf, cells |-> [k \in 1..N |-> v[ins.a].cells[N + 1 - k]], arr |-> TRUE], sv |-> <<>>, ok |-> TRUE]
    [] ins.op = "set" ->
         LET tgt == v[ins.a]  c == tgt.cells[ins.i]
             old == h[tgt.buf][c]
             new == h[v[ins.b].buf][v[ins.b].cells[1]]
         IN [h |-> WriteCell(h, tgt.buf, c, new), o |-> NoneV,
             sv |-> IF refresh THEN <<ins.i, old>> ELSE oldsaved, ok |-> TRUE]
    [] ins.op \in {"add", "sub", "mul", "div"} ->
         LET x == TLCEval(Read(h, v[ins.a]))  y == TLCEval(Read(h, v[ins.b]))
             n == IF Len(x) > Len(y) THEN Len(x) ELSE Len(y)
             X(k) == IF Len(x) = 1 THEN x[1] ELSE x[k]
             Y(k) == IF Len(y) = 1 THEN y[1] ELSE y[k]
             ok == ins.op = "div" => \A k \in 1..Len(y) : CNonZero(y[k])
         IN IF ~ok THEN [h |-> h, o |-> NoneV, sv |-> <<>>, ok |-> FALSE]
            ELSE LET r == Fresh(h, [k \in 1..n |-> COp(ins.op, X(k), Y(k))], n > 1)
                 IN [h |-> r.h, o |-> r.o, sv |-> <<>>, ok |-> TRUE]
    [] ins.op = "neg" ->
         LET x == TLCEval(Read(h, v[ins.a]))
             r == Fresh(h, [k \in 1..Len(x) |-> CNeg(x[k])], Len(x) > 1)
         IN [h |-> r.h, o |-> r.o, sv |-> <<>>, ok |-> TRUE]
    [] ins.op \in {"pow", "sq", "recip"} ->      \* x ** n, square(x), reciprocal(x): three entry points, three pullbacks
         LET x == TLCEval(Read(h, v[ins.a]))
             n == PowN(ins)
             ok == n < 0 => \A k \in 1..Len(x) : CNonZero(x[k])
         IN IF ~ok THEN [h |-> h, o |-> NoneV, sv |-> <<>>, ok |-> FALSE]
            ELSE LET r == Fresh(h, [k \in 1..Len(x) |-> CPow(x[k], n)], Len(x) > 1)
                 IN [h |-> r.h, o |-> r.o, sv |-> <<>>, ok |-> TRUE]
    [] ins.op = "prod" ->     \* product of all elements
         LET x == TLCEval(Read(h, v[ins.a]))
             s[k \in 0..Len(x)] == IF k = 0 THEN CConst(ROne, D) ELSE CMul(s[k - 1], x[k])
             r == Fresh(h, <<s[Len(x)]>>, FALSE)
         IN [h |-> r.h, o |-> r.o, sv |-> <<>>, ok |-> TRUE]
    [] ins.op = "sum" ->
         LET x == TLCEval(Read(h, v[ins.a]))
             s[k \in 0..Len(x)] == IF k = 0 THEN CZero(D) ELSE CAdd(s[k - 1], x[k])
             r == Fresh(h, <<s[Len(x)]>>, FALSE)
         IN [h |-> r.h, o |-> r.o, sv |-> <<>>, ok |-> TRUE]
    [] ins.op = "dot" ->      \* dot of two vectors: sum_k a_k b_k
         LET x == TLCEval(Read(h, v[ins.a]))  y == TLCEval(Read(h, v[ins.b]))
             s[k \in 0..Len(x)] == IF k = 0 THEN CZero(D) ELSE CAdd(s[k - 1], CMul(x[k], y[k]))
             r == Fresh(h, <<s[Len(x)]>>, FALSE)
         IN [h |-> r.h, o |-> r.o, sv |-> <<>>, ok |-> TRUE]
    [] ins.op = "seta" ->     \* a[...] = b : every cell of the buffer overwritten (values read before any is written);
                              \* b an array of the same length, or a scalar that is broadcast to every cell
         LET tgt == v[ins.a]
             old == TLCEval(Read(h, tgt))
             new == TLCEval(Read(h, v[ins.b]))
             RECURSIVE wr(_, _)
             wr(k, hh) == IF k > N THEN hh ELSE wr(k + 1, WriteCell(hh, tgt.buf, tgt.cells[k], IF Len(new) = 1 THEN new[1] ELSE new[k]))
         IN [h |-> wr(1, h), o |-> NoneV, sv |-> IF refresh THEN <<0, old>> ELSE oldsaved, ok |-> TRUE]

\* ------------------------------------------------------------------ reference: fresh direct execution of the whole program
RECURSIVE RefFrom(_, _, _, _, _, _)
RefFrom(k, h, v, pt, D, kind) ==
  IF k > Len(prog) THEN [h |-> h, v |-> v, ok |-> TRUE]
  ELSE IF ~recd[k] THEN RefFrom(k + 1, h, Append(v, NoneV), pt, D, kind)       \* executed while recording was off: not part of the program
  ELSE LET r == TLCEval(Step(h, v, prog[k], pt, D, kind, <<>>, TRUE))
       IN IF ~r.ok THEN [h |-> h, v |-> v, ok |-> FALSE]
          ELSE RefFrom(k + 1, r.h, Append(v, r.o), pt, D, kind)
Dep == Len(prog)
RefRun(pt, D, kind) == RefFrom(1, <<>>, <<>>, pt, D, kind)
RefCells(pt, D, kind) == LET r == TLCEval(RefRun(pt, D, kind)) IN Read(r.h, r.v[Dep])
\* value of the dependent: Seq over cells of Seq over p of series
ValOf(cells) == [i \in 1..Len(cells) |-> [p \in 1..P |-> cells[i][p].v]]
\* ybar^T J along the curve: per input cell j, per p: sum_i ybar[i][p] * dv_j(y_i)
AdjOf(cells, ybar) ==
  [j \in 1..NT |-> [p \in 1..P |->
     LET D == Len(cells[1][p].v)
         acc[i \in 0..Len(cells)] == IF i = 0 THEN SZero(D) ELSE SAdd(acc[i - 1], SMul(ybar[i][p], cells[i][p].dv[j]))
     IN acc[Len(cells)]]]
\* J v (first order): per output cell i, per p: sum_j dv_j(y_i)[order 0] * v_j
\* (used by the drivers; all derived from the same cells)

\* ------------------------------------------------------------------ faithful re-evaluation (CGraph.pushforward)
RECURSIVE FwdFrom(_, _, _, _, _, _, _)
FwdFrom(k, h, v, s, pt, D, kind) ==
  IF k > Len(prog) THEN [h |-> h, v |-> v, s |-> s, ok |-> TRUE]
  ELSE IF ~recd[k] THEN FwdFrom(k + 1, h, Append(v, val[k]), s, pt, D, kind)     \* not in the graph: keeps its old value
  ELSE LET r == TLCEval(Step(h, v, prog[k], pt, D, kind, s[k], RefreshStore))
       IN IF ~r.ok THEN [h |-> h, v |-> v, s |-> s, ok |-> FALSE]
          ELSE FwdFrom(k + 1, r.h, Append(v, r.o), [s EXCEPT ![k] = r.sv], pt, D, kind)

\* ------------------------------------------------------------------ reverse sweep (CGraph.pullback)
\* adjoint heap bh: buffers of cells, a cell is Seq over p of series
BZero(D) == [p \in 1..P |-> SZero(D)]
BAdd(x, y) == [p \in 1..P |-> SAdd(x[p], y[p])]
BSub(x, y) == [p \in 1..P |-> SSub(x[p], y[p])]
BNeg(x) == [p \in 1..P |-> SNeg(x[p])]
BMulV(zb, x) == [p \in 1..P |-> SMul(zb[p], x[p].v)]           \* zbar * (value of a cell)
BDivV(zb, x) == [p \in 1..P |-> SDiv(zb[p], x[p].v)]
BScalePow(zb, x, n) == [p \in 1..P |-> IF n = 0 THEN SZero(Len(zb[p]))
                                       ELSE SMul(zb[p], SScale(RInt(n), SPowInt(x[p].v, n - 1)))]
IsConst(k) == prog[k].op = "const"
\* xbar_from_x: own data (or Id) -> fresh zeros; a view -> the same view of the parent's bar
RECURSIVE BarInit(_, _, _, _, _)
BarInit(k, bh, b, D, V) ==
  IF k > Len(prog) THEN [bh |-> bh, b |-> b]
  ELSE LET ins == prog[k] IN
       IF ~recd[k] THEN BarInit(k + 1, bh, Append(b, NoneV), D, V)
       ELSE IF ins.op = "get" THEN BarInit(k + 1, bh, Append(b, [buf |-> b[ins.a].buf, cells |-> <<b[ins.a].cells[ins.i]>>, arr |-> FALSE]), D, V)
       ELSE IF ins.op = "rev" THEN BarInit(k + 1, bh, Append(b, [buf |-> b[ins.a].buf, cells |-> [c \in 1..N |-> b[ins.a].cells[N + 1 - c]], arr |-> TRUE]), D, V)
       ELSE IF ins.op \in {"set", "seta"} THEN BarInit(k + 1, bh, Append(b, NoneV), D, V)
       ELSE LET n == Len(V[k].cells) IN
            BarInit(k + 1, Append(bh, [i \in 1..n |-> BZero(D)]),
                    Append(b, [buf |-> Len(bh) + 1, cells |-> [i \in 1..n |-> i], arr |-> V[k].arr]), D, V)
\* accumulate contribution c (Seq of bar cells, length 1 or that of the target) into bar object o;
\* a scalar target receives the sum over all cells (broadcasting adjoint)
AccInto(bh, o, contrib, k) ==
  IF IsConst(k) \/ o = NoneV THEN bh
  ELSE IF Len(o.cells) = 1
       THEN LET s[i \in 0..Len(contrib)] == IF i = 0 THEN bh[o.buf][o.cells[1]] ELSE BAdd(s[i - 1], contrib[i])
            IN [bh EXCEPT ![o.buf][o.cells[1]] = s[Len(contrib)]]
       ELSE LET RECURSIVE go(_, _)
                go(i, hh) == IF i > Len(o.cells) THEN hh
                             ELSE go(i + 1, [hh EXCEPT ![o.buf][o.cells[i]] = BAdd(@, IF Len(contrib) = 1 THEN contrib[1] ELSE contrib[i])])
            IN go(1, bh)
\* pullback of node k: reads the CURRENT heap contents of its operands; returns [h, bh]
PbStep(k, h, bh, b, V, S) ==
  LET ins == prog[k] IN
  IF ~recd[k] THEN [h |-> h, bh |-> bh]
  ELSE CASE ins.op \in {"in", "in2", "zeros", "const", "get", "rev"} -> [h |-> h, bh |-> bh]
    [] ins.op = "set" ->
         LET tb == b[ins.a]  c == tb.cells[ins.i]
             yb == bh[tb.buf][c]
             bh2 == IF SetPbViaTemp
                    THEN AccInto([bh EXCEPT ![tb.buf][c] = BZero(Len(yb[1]))], b[ins.b], <<yb>>, ins.b)
                    ELSE [AccInto(bh, b[ins.b], <<yb>>, ins.b) EXCEPT ![tb.buf][c] = BZero(Len(yb[1]))]
             tgt == V[ins.a]
             h1 == IF S[k] # <<>> THEN WriteCell(h, tgt.buf, tgt.cells[S[k][1]], S[k][2]) ELSE h
         IN [h |-> h1, bh |-> bh2]
    [] ins.op = "seta" ->
         LET tb == b[ins.a]
             yb == TLCEval(Read(bh, tb))
             RECURSIVE clr(_, _)
             clr(i, hh) == IF i > N THEN hh ELSE clr(i + 1, [hh EXCEPT ![tb.buf][tb.cells[i]] = BZero(Len(yb[1][1]))])
             bh2 == IF SetPbViaTemp THEN AccInto(clr(1, bh), b[ins.b], yb, ins.b) ELSE clr(1, AccInto(bh, b[ins.b], yb, ins.b))
             tgt == V[ins.a]
             RECURSIVE rs(_, _)
             rs(i, hh) == IF i > N THEN hh ELSE rs(i + 1, WriteCell(hh, tgt.buf, tgt.cells[i], S[k][2][i]))
         IN [h |-> IF S[k] # <<>> THEN rs(1, h) ELSE h, bh |-> bh2]
    [] ins.op = "dot" ->
         LET zb == TLCEval(Read(bh, b[k]))
             x == TLCEval(Read(h, V[ins.a]))  y == TLCEval(Read(h, V[ins.b]))
             bh1 == AccInto(bh, b[ins.a], [i \in 1..Len(x) |-> BMulV(zb[1], y[i])], ins.a)
         IN [h |-> h, bh |-> AccInto(bh1, b[ins.b], [i \in 1..Len(y) |-> BMulV(zb[1], x[i])], ins.b)]
    [] ins.op \in {"add", "sub"} ->
         LET zb == TLCEval(Read(bh, b[k]))
             bh1 == AccInto(bh, b[ins.a], zb, ins.a)
         IN [h |-> h, bh |-> AccInto(bh1, b[ins.b], IF ins.op = "add" THEN zb ELSE [i \in 1..Len(zb) |-> BNeg(zb[i])], ins.b)]
    [] ins.op = "mul" ->
         LET zb == TLCEval(Read(bh, b[k]))
             x == TLCEval(Read(h, V[ins.a]))  y == TLCEval(Read(h, V[ins.b]))
             X(i) == IF Len(x) = 1 THEN x[1] ELSE x[i]
             Y(i) == IF Len(y) = 1 THEN y[1] ELSE y[i]
             bh1 == AccInto(bh, b[ins.a], [i \in 1..Len(zb) |-> BMulV(zb[i], Y(i))], ins.a)
         IN [h |-> h, bh |-> AccInto(bh1, b[ins.b], [i \in 1..Len(zb) |-> BMulV(zb[i], X(i))], ins.b)]
    [] ins.op = "div" ->        \* z = x / y : xbar += zbar / y ; ybar -= zbar * z / y
         LET zb == TLCEval(Read(bh, b[k]))
             y == TLCEval(Read(h, V[ins.b]))  z == TLCEval(Read(h, V[k]))
             Y(i) == IF Len(y) = 1 THEN y[1] ELSE y[i]
             t == TLCEval([i \in 1..Len(zb) |-> BDivV(zb[i], Y(i))])
             bh1 == AccInto(bh, b[ins.a], t, ins.a)
         IN [h |-> h, bh |-> AccInto(bh1, b[ins.b], [i \in 1..Len(zb) |-> BNeg(BMulV(t[i], z[i]))], ins.b)]
    [] ins.op = "neg" ->
         LET zb == TLCEval(Read(bh, b[k])) IN [h |-> h, bh |-> AccInto(bh, b[ins.a], [i \in 1..Len(zb) |-> BNeg(zb[i])], ins.a)]
    [] ins.op \in {"pow", "sq", "recip"} ->
         LET zb == TLCEval(Read(bh, b[k]))
             x == TLCEval(Read(h, V[ins.a]))
         IN [h |-> h, bh |-> AccInto(bh, b[ins.a], [i \in 1..Len(zb) |-> BScalePow(zb[i], x[i], PowN(ins))], ins.a)]
    [] ins.op = "prod" ->       \* xbar_i += zbar * prod_{j # i} x_j
         LET zb == TLCEval(Read(bh, b[k]))
             x == TLCEval(Read(h, V[ins.a]))
             Oth(i) == LET s[j \in 0..Len(x)] == IF j = 0 THEN zb[1] ELSE IF j = i THEN s[j - 1] ELSE BMulV(s[j - 1], x[j]) IN s[Len(x)]
         IN [h |-> h, bh |-> AccInto(bh, b[ins.a], [i \in 1..Len(x) |-> Oth(i)], ins.a)]
    [] ins.op = "sum" ->
         LET zb == TLCEval(Read(bh, b[k])) IN
         [h |-> h, bh |-> AccInto(bh, b[ins.a], [i \in 1..Len(b[ins.a].cells) |-> zb[1]], ins.a)]
RECURSIVE PbFrom(_, _, _, _, _, _)
PbFrom(k, h, bh, b, V, S) ==
  IF k = 0 THEN [h |-> h, bh |-> bh]
  ELSE LET r == TLCEval(PbStep(k, h, bh, b, V, S)) IN PbFrom(k - 1, r.h, r.bh, b, V, S)
\* redo the in-place writes in recording order (roll forward)
RECURSIVE Redo(_, _, _)
Redo(k, h, V) == IF k > Len(prog) THEN h
              ELSE LET ins == prog[k] IN
                   IF ins.op = "set" /\ recd[k]
                   THEN Redo(k + 1, WriteCell(h, V[ins.a].buf, V[ins.a].cells[ins.i], h[V[ins.b].buf][V[ins.b].cells[1]]), V)
                   ELSE IF ins.op = "seta" /\ recd[k]
                   THEN LET new == TLCEval(Read(h, V[ins.b]))
                            RECURSIVE wr(_, _)
                            wr(i, hh) == IF i > N THEN hh ELSE wr(i + 1, WriteCell(hh, V[ins.a].buf, V[ins.a].cells[i], IF Len(new) = 1 THEN new[1] ELSE new[i]))
                        IN Redo(k + 1, wr(1, h), V)
                   ELSE Redo(k + 1, h, V)
\* the whole sweep from seeds ybar (Seq over dependent cells of bar cells) on node values V, saved contents S
SweepWith(h, V, S, ybar, D) ==
  LET bi == TLCEval(BarInit(1, <<>>, <<>>, D, V))
      db == TLCEval(bi.b[Dep])
      RECURSIVE seed(_, _)
      seed(i, hh) == IF i > Len(db.cells) THEN hh ELSE seed(i + 1, [hh EXCEPT ![db.buf][db.cells[i]] = ybar[i]])
      r == TLCEval(PbFrom(Len(prog), h, seed(1, bi.bh), bi.b, V, S))
      in2 == {k \in 1..Len(prog) : prog[k].op = "in2"}
  IN [h |-> IF RollForward THEN Redo(1, r.h, V) ELSE r.h,
      xbar |-> Read(r.bh, bi.b[1]) \o (IF in2 = {} THEN <<>> ELSE Read(r.bh, bi.b[CHOOSE k \in in2 : TRUE]))]
Sweep(h, ybar) == SweepWith(h, val, saved, ybar, Dc)

\* ------------------------------------------------------------------ recording
ScalarNodes == {k \in 1..Len(prog) : val[k] # NoneV /\ ~val[k].arr}
ArrayNodes  == {k \in 1..Len(prog) : val[k] # NoneV /\ val[k].arr}
Usable == {k \in 1..Len(prog) : recd[k]}          \* operands come from recorded nodes (a program the graph represents)
Ins(op, a, b, i, n, c) == [op |-> op, a |-> a, b |-> b, i |-> i, n |-> n, c |-> c]
ConstCat == {<<2, 1>>, <<-1, 2>>}
Instrs ==
     (IF "get" \in Ops THEN {Ins("get", a, 0, i, 0, RZero) : a \in ArrayNodes \cap Usable, i \in 1..N} ELSE {})
  \cup (IF "rev" \in Ops THEN {Ins("rev", a, 0, 0, 0, RZero) : a \in ArrayNodes \cap Usable} ELSE {})
  \cup (IF "set" \in Ops THEN {Ins("set", a, b, i, 0, RZero) : a \in {k \in ArrayNodes \cap Usable : prog[k].op = "zeros"},
                                                                b \in ScalarNodes \cap Usable, i \in 1..N} ELSE {})
  \cup {ii \in {Ins(op, a, b, 0, 0, RZero) : op \in Ops \cap {"add", "sub", "mul", "div"},
                                     a \in (ScalarNodes \cup ArrayNodes) \cap Usable, b \in (ScalarNodes \cup ArrayNodes) \cap Usable} :
            \* commutative operators on operands of the same rank: one operand order is enough
            /\ ((ii.op \in {"add", "mul"} /\ val[ii.a].arr = val[ii.b].arr) => ii.a <= ii.b)
            /\ ~(prog[ii.a].op = "const" /\ prog[ii.b].op = "const")}        \* a constant expression is not a traced value
  \cup (IF "neg" \in Ops THEN {Ins("neg", a, 0, 0, 0, RZero) : a \in {k \in (ScalarNodes \cup ArrayNodes) \cap Usable : prog[k].op # "const"}} ELSE {})
  \cup (IF "pow" \in Ops THEN {Ins("pow", a, 0, 0, n, RZero) : a \in {k \in (ScalarNodes \cup ArrayNodes) \cap Usable : prog[k].op # "const"}, n \in {-1, 2}} ELSE {})
  \cup (IF "dot" \in Ops THEN {ii \in {Ins("dot", a, b, 0, 0, RZero) : a \in ArrayNodes \cap Usable, b \in ArrayNodes \cap Usable} : ii.a <= ii.b} ELSE {})
  \cup (IF "seta" \in Ops THEN {Ins("seta", a, b, 0, 0, RZero) : a \in {k \in ArrayNodes \cap Usable : prog[k].op = "zeros"},
                                                                  b \in {k \in ArrayNodes \cap Usable : prog[k].op # "zeros"}} ELSE {})
  \cup (IF "setsc" \in Ops THEN {Ins("seta", a, b, 0, 0, RZero) : a \in {k \in ArrayNodes \cap Usable : prog[k].op = "zeros"},
                                                                   b \in {k \in ScalarNodes \cap Usable : prog[k].op # "const"}} ELSE {})
  \cup {Ins(op, a, 0, 0, 0, RZero) : op \in Ops \cap {"sq", "recip"}, a \in {k \in (ScalarNodes \cup ArrayNodes) \cap Usable : prog[k].op # "const"}}
  \cup (IF "prod" \in Ops THEN {Ins("prod", a, 0, 0, 0, RZero) : a \in ArrayNodes \cap Usable} ELSE {})
  \cup (IF "sum" \in Ops THEN {Ins("sum", a, 0, 0, 0, RZero) : a \in ArrayNodes \cap Usable} ELSE {})
  \cup (IF "const" \in Ops THEN {Ins("const", 0, 0, 0, 0, c) : c \in ConstCat} ELSE {})

RecPt == [D |-> 1, x |-> [p \in 1..P |-> [j \in 1..NT |-> <<RInt(j)>>]]]      \* the graph is recorded at (1, 2, ..)
\* The fixed beginning of every program.  "plain": the input vector and a zeros buffer.  "buffered": additionally
\* g1 = x[0]; g2 = x[1]; buf[0] = g1; v = buf[0]  (a view of a written buffer cell), so that MaxInstr further
\* instructions reach programs that read a cell, overwrite it and use both values.
PrefixProg ==
  IF Prefix = "plain" THEN << Ins("in", 0, 0, 0, 0, RZero), Ins("zeros", 0, 0, 0, 0, RZero) >>
  ELSE IF Prefix = "two" THEN     \* an operation on x is recorded BEFORE the second independent z is wrapped
       << Ins("in", 0, 0, 0, 0, RZero), Ins("zeros", 0, 0, 0, 0, RZero), Ins("get", 1, 0, 1, 0, RZero), Ins("in2", 0, 0, 0, 0, RZero) >>
  ELSE IF Prefix = "overwritten" THEN
       \* g1 = x[0]; g2 = x[1]; buf[0] = g1; v = buf[0]; m = v*v; buf[0] = m
       \* (a buffer entry that is written, read by a nonlinear operation and overwritten: every sweep has to restore it)
       << Ins("in", 0, 0, 0, 0, RZero), Ins("zeros", 0, 0, 0, 0, RZero),
          Ins("get", 1, 0, 1, 0, RZero), Ins("get", 1, 0, 2, 0, RZero),
          Ins("set", 2, 3, 1, 0, RZero), Ins("get", 2, 0, 1, 0, RZero),
          Ins("mul", 6, 6, 0, 0, RZero), Ins("set", 2, 7, 1, 0, RZero) >>
  ELSE << Ins("in", 0, 0, 0, 0, RZero), Ins("zeros", 0, 0, 0, 0, RZero),
          Ins("get", 1, 0, 1, 0, RZero), Ins("get", 1, 0, 2, 0, RZero),
          Ins("set", 2, 3, 1, 0, RZero), Ins("get", 2, 0, 1, 0, RZero) >>
RECURSIVE RunList(_, _, _, _, _, _)
RunList(k, h, v, s, L, pt) ==
  IF k > Len(L) THEN [h |-> h, v |-> v, s |-> s]
  ELSE LET r == TLCEval(Step(h, v, L[k], pt, 1, "U", <<>>, TRUE)) IN RunList(k + 1, r.h, Append(v, r.o), Append(s, r.sv), L, pt)
NPre == Len(PrefixProg)
Init ==
  /\ prog = PrefixProg
  /\ recd = [k \in 1..NPre |-> TRUE]
  /\ tracing = TRUE
  /\ cur = [kind |-> "U", D |-> 1, pt |-> RecPt.x]
  /\ LET r == RunList(1, <<>>, <<>>, <<>>, PrefixProg, RecPt.x) IN heap = r.h /\ val = r.v /\ saved = r.s
  /\ phase = "rec" /\ hist = <<>> /\ ret = NoRet /\ bars = <<>> /\ xbuf = <<>> /\ handed = <<>>

NumRec == Cardinality({k \in 1..Len(prog) : recd[k]})
\* Function.create + Function.pushforward(Fout = None): compute the value, append the node iff recording
Rec(ins) ==
  /\ phase = "rec" /\ Len(prog) < MaxInstr + NPre
  /\ (~tracing => ins.op \notin {"set", "seta"})
  /\ LET r == TLCEval(Step(heap, val, ins, cur.pt, 1, "U", <<>>, TRUE)) IN
       /\ r.ok
       /\ heap' = r.h /\ val' = Append(val, r.o) /\ saved' = Append(saved, r.sv)
  /\ prog' = Append(prog, ins) /\ recd' = Append(recd, tracing)
  /\ LET r == TLCEval(Step(heap, val, ins, cur.pt, 1, "U", <<>>, TRUE)) IN
       hist' = Append(hist, [c |-> "rec", ins |-> ins, on |-> tracing,
                             v |-> IF r.o = NoneV THEN <<>> ELSE ValOf(Read(r.h, r.o))])
  /\ UNCHANGED <<tracing, phase, cur, ret, bars, xbuf, handed>>
\* cg.trace_off() / cg.trace_on() in the middle of a program: only pure operations are executed while off
Toggle ==
  /\ phase = "rec" /\ "toggle" \in Ops
  /\ Cardinality({k \in 1..Len(hist) : hist[k].c \in {"trace_off", "trace_on"}}) < 2
  /\ Len(prog) < MaxInstr + NPre
  /\ tracing' = ~tracing
  /\ hist' = Append(hist, [c |-> IF tracing THEN "trace_off" ELSE "trace_on"])
  /\ UNCHANGED <<prog, recd, val, saved, heap, phase, cur, ret, bars, xbuf, handed>>
\* an unrelated, already completed graph is evaluated (value, gradient) while THIS graph is recording: no effect, in particular
\* this graph keeps recording
OtherRec ==
  /\ phase = "rec" /\ "otherrec" \in Ops /\ tracing
  /\ Cardinality({k \in 1..Len(hist) : hist[k].c = "other_rec"}) < 1
  /\ hist' = Append(hist, [c |-> "other_rec"])
  /\ UNCHANGED <<prog, recd, tracing, val, saved, heap, phase, cur, ret, bars, xbuf, handed>>
Stop ==
  /\ phase = "rec" /\ Len(prog) > NPre /\ recd[Len(prog)] /\ val[Len(prog)] # NoneV
  /\ prog[Len(prog)].op \notin {"const", "zeros"}
  \* every recorded instruction matters: it is the dependent, an in-place write, or an operand of a later one
  /\ \A k \in (NPre + 1)..(Len(prog) - 1) : (recd[k] /\ prog[k].op \notin {"set", "seta"}) => \E m \in (k + 1)..Len(prog) : recd[m] /\ (prog[m].a = k \/ prog[m].b = k)
  /\ phase' = "idle" /\ tracing' = FALSE
  /\ hist' = Append(hist, [c |-> "stop"])
  /\ UNCHANGED <<prog, recd, val, saved, heap, cur, ret, bars, xbuf, handed>>

\* ------------------------------------------------------------------ calls on the recorded graph
CanCall == phase = "idle" /\ Cardinality({k \in 1..Len(hist) : hist[k].c \notin {"rec", "stop", "trace_off", "trace_on", "other_rec"}}) < MaxHist
\* cg.pushforward([x]) with a UTPM (D, P) or a plain array (D = 1)
Fwd(pt, kind) ==
  /\ CanCall /\ (kind = "A" => pt.D = 1)
  /\ LET r == TLCEval(FwdFrom(1, heap, <<>>, saved, pt.x, pt.D, kind)) IN
       /\ r.ok
       /\ heap' = r.h /\ val' = r.v /\ saved' = r.s
       /\ ret' = [k |-> "val", v |-> ValOf(Read(r.h, r.v[Dep]))]
  /\ cur' = [kind |-> kind, D |-> pt.D, pt |-> pt.x]
  /\ LET r == TLCEval(FwdFrom(1, heap, <<>>, saved, pt.x, pt.D, kind)) IN
       hist' = Append(hist, [c |-> "fwd", pt |-> pt, kind |-> kind, ret |-> ValOf(Read(r.h, r.v[Dep]))])
  /\ bars' = <<>>
  /\ UNCHANGED <<prog, recd, tracing, phase, xbuf, handed>>
\* cg.pullback([ybar]) after a UTPM forward evaluation
\* The adjoint of the independents is left in a buffer the caller keeps a reference to (x.xbar; the drivers return views
\* of it).  The code allocates new buffers in every sweep (Function.xbar_from_x); FreshBars = FALSE is the variant that
\* clears and reuses the previous buffers when degree and direction count still fit.
HandOut(xbar, D) ==
  LET reuse == ~FreshBars /\ xbuf # <<>> /\ xbuf[Len(xbuf)].D = D IN
  /\ xbuf' = IF reuse THEN [xbuf EXCEPT ![Len(xbuf)] = [D |-> D, v |-> xbar]] ELSE Append(xbuf, [D |-> D, v |-> xbar])
  /\ handed' = Append(handed, [g |-> IF reuse THEN Len(xbuf) ELSE Len(xbuf) + 1, v |-> xbar])
Pb(sd) ==
  /\ CanCall /\ cur.kind = "U"
  /\ LET ncell == Len(val[Dep].cells)
         ybar == [i \in 1..ncell |-> [p \in 1..P |-> STrunc(sd[((i + p) % Len(sd)) + 1], Dc)]]
         r == TLCEval(Sweep(heap, ybar))
     IN /\ heap' = r.h
        /\ ret' = [k |-> "adj", v |-> r.xbar]
        /\ bars' = r.xbar
        /\ hist' = Append(hist, [c |-> "pb", ybar |-> ybar, ret |-> r.xbar])
        /\ HandOut(r.xbar, Dc)
  /\ UNCHANGED <<prog, recd, tracing, val, saved, phase, cur>>

\* ------------------------------------------------------------------ derivative drivers (tracer.py:191-612)
\* a driver = seed construction, one forward evaluation, one reverse sweep (except jac_vec), a slice of xbar.
\* Modelled for P = 1; the multi-direction drivers (hessian, jacobian, vec_hess) are the same sweep per direction.
Unit(k) == [j \in 1..N |-> IF j = k THEN ROne ELSE RZero]
\* the curve x + t v  (D = 2) or the point x (D = 1), one direction
Curve(x, v, D) == << [j \in 1..N |-> IF D = 1 THEN <<x[j]>> ELSE <<x[j], v[j]>>] >>
DrvNames == {"gradient", "jac_vec", "vec_jac", "hess_vec", "vec_hess_vec", "hessian", "jacobian", "vec_hess", "jacobian_utpm"}
\* faithful: forward + reverse on the persistent graph state; returns [ok, h, v, s, out]
DrvRun(x, v, w, D, needPb) ==
  LET f == TLCEval(FwdFrom(1, heap, <<>>, saved, Curve(x, v, D), D, "U")) IN
  IF ~f.ok THEN [ok |-> FALSE, h |-> heap, v |-> val, s |-> saved, y |-> <<>>, xbar |-> <<>>]
  ELSE LET y == Read(f.h, f.v[Dep]) IN
       IF ~needPb THEN [ok |-> TRUE, h |-> f.h, v |-> f.v, s |-> f.s, y |-> y, xbar |-> <<>>]
       ELSE LET ybar == [i \in 1..Len(y) |-> << SConst(w[i], D) >>]
                sw == TLCEval(SweepWith(f.h, f.v, f.s, ybar, D))
            IN [ok |-> TRUE, h |-> sw.h, v |-> f.v, s |-> f.s, y |-> y, xbar |-> sw.xbar]
Ones(n) == [i \in 1..n |-> ROne]
DepLen == Len(val[Dep].cells)
\* expected values from the reference cells (forward-mode derivative series carried in every cell)
RefJac(x) == LET c == TLCEval(RefCells(Curve(x, x, 1), 1, "U")) IN [i \in 1..Len(c) |-> [j \in 1..N |-> c[i][1].dv[j][1]]]
\* d/dt of dy_i/dx_j along x + t v  =  sum_k H^i_jk v_k
RefHessDir(x, v) == LET c == TLCEval(RefCells(Curve(x, v, 2), 2, "U")) IN [i \in 1..Len(c) |-> [j \in 1..N |-> c[i][1].dv[j][2]]]
Dot(a, b) == RSumSeq([k \in 1..Len(a) |-> RMul(a[k], b[k])])
RefDrv(name, x, v, w) ==
  CASE name = "gradient" -> RefJac(x)[1]
    [] name = "jacobian" -> RefJac(x)
    [] name = "jac_vec"  -> [i \in 1..DepLen |-> Dot(RefJac(x)[i], v)]
    [] name = "vec_jac"  -> [j \in 1..N |-> Dot(w, [i \in 1..DepLen |-> RefJac(x)[i][j]])]
    [] name = "hess_vec" -> RefHessDir(x, v)[1]
    [] name = "vec_hess_vec" -> [j \in 1..N |-> Dot(w, [i \in 1..DepLen |-> RefHessDir(x, v)[i][j]])]
    [] name = "hessian"  -> [k \in 1..N |-> RefHessDir(x, Unit(k))[1]]
    [] name = "jacobian_utpm" ->      \* Taylor expansion of every Jacobian entry along x + t v
         LET c == TLCEval(RefCells(Curve(x, v, 2), 2, "U")) IN [i \in 1..Len(c) |-> [j \in 1..N |-> c[i][1].dv[j]]]
    [] name = "vec_hess" -> [k \in 1..N |-> [j \in 1..N |-> Dot(w, [i \in 1..DepLen |-> RefHessDir(x, Unit(k))[i][j]])]]
\* what the driver returns, computed the driver's way on the graph state
Drv(name, x, v, w) ==
  /\ CanCall /\ "drv" \in Ops /\ NI = 1
  /\ name \in {"gradient", "hess_vec", "hessian"} => DepLen = 1
  /\ Len(w) = DepLen
  \* arguments a driver does not take are fixed to one catalogue element (no spurious branching)
  /\ name \in {"gradient", "jacobian", "vec_jac", "hessian", "vec_hess"} => v = (CHOOSE vv \in DrvV : TRUE)
  /\ name \in {"gradient", "jacobian", "jac_vec", "hessian", "hess_vec", "jacobian_utpm"} => w = (CHOOSE ww \in DrvW : Len(ww) = DepLen)
  /\ LET D == IF name \in {"gradient", "jacobian", "vec_jac"} THEN 1 ELSE 2
         vv == IF name \in {"hessian", "vec_hess"} THEN Unit(N) ELSE v        \* last direction of init_jacobian
         ww == IF name \in {"gradient", "hess_vec", "hessian"} THEN Ones(1)
               ELSE IF name \in {"jacobian", "jacobian_utpm"} THEN [i \in 1..DepLen |-> IF i = DepLen THEN ROne ELSE RZero] ELSE w
         r == TLCEval(DrvRun(x, vv, ww, D, name # "jac_vec"))
     IN /\ r.ok
        /\ heap' = r.h /\ val' = r.v /\ saved' = r.s
        \* The single-direction drivers (gradient, vec_jac: D = 1; jac_vec, hess_vec, vec_hess_vec: D = 2 along x + t v) leave the
        \* graph evaluated on a curve with one direction: a bare reverse sweep with a seed of that degree is a legitimate next
        \* call and has to return ybar^T J there (kind "U").  "D": evaluated inside a multi-direction driver (direction count
        \* is the driver's business: no bare Pb)
        /\ cur' = [kind |-> IF name \in {"gradient", "vec_jac", "jac_vec", "hess_vec", "vec_hess_vec"} /\ P = 1 /\ "pbdrv" \in Ops THEN "U" ELSE "D",
                   D |-> D, pt |-> Curve(x, vv, D)]
        /\ ret' = [k |-> "drv", v |-> RefDrv(name, x, v, w)]
        /\ hist' = Append(hist, [c |-> "drv", name |-> name, x |-> x, v |-> v, w |-> w, ret |-> RefDrv(name, x, v, w),
                                 \* the part of the result produced by the modelled sweep (last direction), for the design check
                                 got |-> IF name = "jac_vec" THEN [i \in 1..DepLen |-> r.y[i][1].v[2]]
                                         ELSE IF name = "jacobian_utpm" THEN [j \in 1..N |-> r.xbar[j][1]]
                                         ELSE [j \in 1..N |-> r.xbar[j][1][D]]])
        /\ bars' = r.xbar
        /\ IF name = "jac_vec" THEN UNCHANGED <<xbuf, handed>> ELSE HandOut(r.xbar, D)     \* (jac_vec has no reverse sweep)
  /\ UNCHANGED <<prog, recd, tracing, phase>>

\* recording / evaluating an unrelated graph in between: no effect on this graph
Other ==
  /\ CanCall /\ "other" \in Ops
  /\ hist' = Append(hist, [c |-> "other"]) /\ ret' = NoRet
  /\ UNCHANGED <<prog, recd, tracing, val, saved, heap, phase, cur, bars, xbuf, handed>>

Next == (\E ins \in Instrs : Rec(ins)) \/ Toggle \/ OtherRec \/ Stop
        \/ (\E pt \in Points : \E kind \in {"U", "A"} : Fwd(pt, kind))
        \/ (\E sd \in Seeds : Pb(sd)) \/ Other
        \/ (\E name \in DrvNames : \E x \in DrvX : \E v \in DrvV : \E w \in DrvW : Drv(name, x, v, w))

\* ------------------------------------------------------------------ properties
\* C05 every executed operation is recorded once, in order, after its operands; nothing while off
RecordOnce == [][ (Len(prog') = Len(prog) + 1) =>
                    /\ recd'[Len(prog')] = tracing
                    /\ SubSeq(recd', 1, Len(prog)) = recd /\ SubSeq(prog', 1, Len(prog)) = prog
                    /\ LET ins == prog'[Len(prog')] IN
                         \A a \in {ins.a, ins.b} : a # 0 => (a <= Len(prog) /\ recd[a]) ]_vars
\* C05 the graph re-evaluated at any inputs yields what the program yields on those inputs
ReplayIsProgram ==
  (phase = "idle" /\ ret.k = "val") =>
     ret.v = ValOf(RefCells(cur.pt, cur.D, cur.kind))
\* also: the node values themselves (what later sweeps read) are those of the program
ForwardValuesStable ==
  (phase = "idle") => ValOf(Read(heap, val[Dep])) = ValOf(RefCells(cur.pt, cur.D, IF cur.kind = "A" THEN "A" ELSE "U"))
\* C03/C06 every reverse sweep returns ybar^T J along the current curve, whatever happened before
AdjointCorrect ==
  (phase = "idle" /\ ret.k = "adj") =>
     LET h == hist[Len(hist)] IN ret.v = AdjOf(RefCells(cur.pt, cur.D, "U"), h.ybar)
\* C04 the driver's own computation (seed, forward, reverse, slice) yields the derivative at the requested point
DriverCorrect ==
  (phase = "idle" /\ ret.k = "drv") =>
     LET h == hist[Len(hist)] IN
     CASE h.name \in {"gradient", "vec_jac", "hess_vec", "vec_hess_vec", "jac_vec"} -> h.got = h.ret
       [] h.name \in {"jacobian", "jacobian_utpm"} -> h.got = h.ret[Len(h.ret)]
       [] h.name \in {"hessian", "vec_hess"} -> h.got = h.ret[N]
\* C06 a result handed to the caller is a value: no later call changes it (the documented row-by-row assembly of a
\* Jacobian keeps x.xbar of several sweeps)
ResultsStable == \A i \in 1..Len(handed) : xbuf[handed[i].g].v = handed[i].v
Small == \A b \in 1..Len(heap) : \A c \in 1..Len(heap[b]) : \A p \in 1..P : \A d \in 1..Len(heap[b][c][p].v) :
            RSmall(heap[b][c][p].v[d], MaxAbs)
=============================================================================
