------------------------------ MODULE MC_UTPM ------------------------------
(* Bounded instances of UTPMachine: M (exhaustive, design invariants) and the   *)
(* R generator (every state prints its behaviour and the projected heap).       *)
EXTENDS UTPMachine, Json

CONSTANT Emit

\* ---- pools
PoolVec2   == << [k |-> "U", es |-> <<2>>], [k |-> "U", es |-> <<2>>], [k |-> "A", es |-> <<2>>] >>
PoolBcast  == << [k |-> "U", es |-> <<2>>], [k |-> "U", es |-> <<2, 1>>], [k |-> "A", es |-> <<2, 2>>] >>
PoolBcastP == << [k |-> "U", es |-> <<2>>], [k |-> "U", es |-> <<>>], [k |-> "A", es |-> <<Pg, 2>>], [k |-> "A", es |-> <<3, 1, 2>>] >>
PoolMat    == << [k |-> "U", es |-> <<2, 3>>], [k |-> "U", es |-> <<3>>], [k |-> "A", es |-> <<3>>] >>
PoolMat22  == << [k |-> "U", es |-> <<2, 2>>], [k |-> "U", es |-> <<2>>], [k |-> "A", es |-> <<2>>] >>
PoolScal   == << [k |-> "U", es |-> <<>>], [k |-> "U", es |-> <<3>>], [k |-> "A", es |-> <<>>] >>
Pool3D     == << [k |-> "U", es |-> <<2, 1, 2>>], [k |-> "U", es |-> <<2>>] >>
PoolVec4   == << [k |-> "U", es |-> <<4>>], [k |-> "U", es |-> <<2>>], [k |-> "A", es |-> <<2>>] >>

\* ---- index catalogues (element axes)
S(lo, hi, st) == <<"s", lo, hi, st>>
I(n) == <<"i", n>>
IdxVec == { <<I(0)>>, <<I(-1)>>, <<S(None, None, 1)>>, <<S(1, None, 1)>>, <<S(None, -1, 1)>>,
            <<S(None, None, -1)>>, <<S(None, None, 2)>>, <<S(-1, None, -2)>>, <<S(1, 0, 1)>>,
            << <<"e">> >>, << <<"n">> >>, << <<"e">>, <<"n">> >>, <<S(0, 1, 1)>> }
IdxMat == IdxVec \cup { <<I(0), I(1)>>, <<I(-1), S(None, None, 1)>>, <<S(None, None, 1), I(0)>>,
            <<S(None, None, -1), S(1, None, 1)>>, << <<"e">>, I(-1)>>, <<I(1), <<"e">> >>,
            << <<"n">>, S(None, None, 1)>>, <<S(None, None, 1), <<"n">> >>, <<S(None, None, 2), S(None, None, -2)>>,
            <<I(0), <<"n">>, I(0)>> }
IdxSmall == { <<I(0)>>, <<I(-1)>>, <<S(None, None, -1)>>, <<S(1, None, 1)>>, << <<"e">> >> }
IdxNone == {}

ScalSet == { <<2, 1>>, <<-1, 2>> }
ScalOne == { <<2, 1>> }
NoScal == {}
CmpSet == { <<1, 1>>, <<3, 1>>, <<-2, 1>>, <<1, 2>>, <<5, 1>>, <<6, 1>> }
ActsCmp == {"cmp", "bin", "getitem", "unary"}
RsCat == { <<4>>, <<2, 2>>, <<6>>, <<3, 2>>, <<1, 2>>, <<2, 1>>, <<2, 3>> }
NoRs == {}

ActsArith == {"bin", "bina", "bins", "ibin", "ibina", "ibins", "powi", "unary"}
ActsBin == {"bin", "bina", "bins"}
ActsShape == {"getitem", "setitem", "setitema", "setitems", "transpose", "reshape", "sum", "unary"}
ActsAlias == {"getitem", "transpose", "bin", "ibin", "setitem"}
ActsGet == {"getitem"}
ActsAll == ActsArith \cup ActsShape

Proj(o) == [k |-> o.k, buf |-> o.buf, shape |-> o.shape, cells |-> o.cells,
            vals |-> [c \in 1..Len(o.cells) |-> heap[o.buf][o.cells[c]]]]
EmitState == Emit => PrintT(ToJson([h |-> hist, o |-> [i \in 1..Len(objs) |-> Proj(objs[i])]]))
Spec == Init /\ [][Next]_vars
=============================================================================
