----------------------------- MODULE FwdDrivers -----------------------------
(* Forward-mode derivative drivers: seeding (init_XXX), propagation, extraction     *)
(* (extract_XXX).  Seeds are sets of directions and the extraction formulas are      *)
(* written from the mathematics (polarisation identities, exact interpolation),    *)
(* not from the index arithmetic of the implementation.  Reference: the exact      *)
(* partial derivatives of monomials (by linearity: of all polynomials).            *)
EXTENDS Interp, TPS

\* the univariate Taylor series (D coefficients) of the monomial x^alpha along the line pt + t*s
MonoAlong(alpha, pt, s, D) ==
  LET N == Len(alpha)
      line(i) == [d \in 1..D |-> IF d = 1 THEN RInt(pt[i]) ELSE IF d = 2 THEN s[i] ELSE RZero]
      acc[i \in 0..N] == IF i = 0 THEN SOne(D) ELSE SMul(acc[i - 1], SPowNat(line(i), alpha[i]))
  IN acc[N]
\* coefficient of order k (0-based) of f along direction s
Ck(alpha, pt, s, k) == MonoAlong(alpha, pt, s, k + 1)[k + 1]

\* exact partial derivatives of x^alpha at pt:  (1/beta!) d^beta x^alpha = C(alpha,beta) pt^(alpha-beta)
RECURSIVE IPow(_, _)
IPow(b, e) == IF e = 0 THEN 1 ELSE b * IPow(b, e - 1)
PartialOverFact(alpha, beta, pt) ==
  LET N == Len(alpha)
      f[i \in 0..N] == IF i = 0 THEN 1
                       ELSE IF beta[i] > alpha[i] THEN 0 ELSE f[i - 1] * Binom(alpha[i], beta[i]) * IPow(pt[i], alpha[i] - beta[i])
  IN IF \E i \in 1..N : beta[i] > alpha[i] THEN 0 ELSE f[N]
UnitI(N, k) == [j \in 1..N |-> IF j = k THEN 1 ELSE 0]
AddI(a, b) == [j \in 1..Len(a) |-> a[j] + b[j]]
Grad(alpha, pt, k) == PartialOverFact(alpha, UnitI(Len(alpha), k), pt)                     \* df/dx_k
Hess(alpha, pt, i, j) == LET b == AddI(UnitI(Len(alpha), i), UnitI(Len(alpha), j))          \* d2f/dx_i dx_j
                         IN PartialOverFact(alpha, b, pt) * (IF i = j THEN 2 ELSE 1)
RV(v) == [j \in 1..Len(v) |-> RInt(v[j])]

\* ---- the drivers
\* init_jacobian: directions e_1..e_N, D = 2;  extract: J_k = c_1(e_k)
JacobianSeeds(N) == {UnitI(N, k) : k \in 1..N}
ExtractJacobian(alpha, pt, k) == Ck(alpha, pt, RV(UnitI(Len(alpha), k)), 1)
\* init_jac_vec: the single direction v
ExtractJacVec(alpha, pt, v) == Ck(alpha, pt, RV(v), 1)
\* init_hessian: N(N+1)/2 directions e_i and e_i + e_j (i < j), D = 3
HessianSeeds(N) == {UnitI(N, i) : i \in 1..N} \cup ({AddI(UnitI(N, i), UnitI(N, j)) : i \in 1..N, j \in 1..N} \ {AddI(UnitI(N, i), UnitI(N, i)) : i \in 1..N})
ExtractHessian(alpha, pt, i, j) ==
  LET N == Len(alpha)  c2(s) == Ck(alpha, pt, RV(s), 2) IN
  IF i = j THEN RMul(RInt(2), c2(UnitI(N, i)))
  ELSE RSub(RSub(c2(AddI(UnitI(N, i), UnitI(N, j))), c2(UnitI(N, i))), c2(UnitI(N, j)))
\* init_hess_vec: 2N+1 directions e_n, v + e_n, v;  (H v)_n = c_2(v + e_n) - c_2(e_n) - c_2(v)
HessVecSeeds(N, v) == {UnitI(N, k) : k \in 1..N} \cup {AddI(v, UnitI(N, k)) : k \in 1..N} \cup {v}
ExtractHessVec(alpha, pt, v, n) ==
  LET N == Len(alpha)  c2(s) == Ck(alpha, pt, RV(s), 2) IN
  RSub(RSub(c2(AddI(v, UnitI(N, n))), c2(UnitI(N, n))), c2(v))
\* init_tensor(d): one direction per multi-index of degree d; extract: Gamma . c_d
ExtractTensor(alpha, pt, d, i) ==
  FoldSet(LAMBDA j, acc : RAdd(RMul(Gamma(i, j, Len(alpha), d), Ck(alpha, pt, RV(j), d)), acc), RZero, MultiIdx(Len(alpha), d))
=============================================================================
