----------------------------- MODULE MC_Interp -----------------------------
(* M: the interpolation identity for every (N, d) within bounds and every pair   *)
(* of multi-indices; R: emits Gamma rows for comparison with the implementation. *)
EXTENDS Interp, Json
CONSTANTS MaxN, MaxDeg, MaxCard, Emit

VARIABLES N, d, i, a, phase
vars == <<N, d, i, a, phase>>

Card(n, dd) == Binom(n + dd - 1, dd)

Init == /\ N \in 1..MaxN /\ d \in 1..MaxDeg /\ Card(N, d) <= MaxCard
        /\ i \in MultiIdx(N, d) /\ a = i /\ phase = "row"
\* from the row state of multi-index i, visit every alpha
Pick == /\ phase = "row" /\ \E al \in MultiIdx(N, d) : a' = al
        /\ phase' = "cell" /\ UNCHANGED <<N, d, i>>
Next == Pick

\* the enumeration of monomials is complete and without duplicates (set definition vs count)
CardOK == Cardinality(MultiIdx(N, d)) = Card(N, d)
IdentityOK == phase = "cell" => Identity(i, a, N, d)
DiagOK == phase = "row" => Identity(i, i, N, d)
EmitRow == (Emit /\ phase = "row") =>
   PrintT(ToJson([N |-> N, d |-> d, i |-> i,
                  row |-> [j \in MultiIdx(N, d) |-> Gamma(i, j, N, d)]]))
=============================================================================
